(* Property C03 — Sort returns a permutation of the rows ordered by the given keys. *)
From QF Require Import Base.Prelude Model.Sort Proofs.SortProofs Proofs.SortSafe Proofs.SortSorted.
From QF Require Import Corr.SortCorr Proofs.SortKeyProofs.
From QF Require Import Proofs.SortQuick Proofs.SortQuickSorted Proofs.SortQuickRange.

(* 1. The sorter only permutes: for ANY Less (even an inconsistent one), any length, any thresholds. *)
Theorem C03_perm (lt : nat -> nat -> bool) (ids out : list nat) :
  sort_ids lt ids = Ok out -> Permutation out ids.
Proof. exact (sort_ids_perm lt ids out). Qed.
Print Assumptions C03_perm.

Example C03_perm_example :
  sort_ids (fun a b => a mod 3 <? b mod 3) [5; 4; 3; 2; 1; 0; 11; 10; 9; 8; 7; 6; 13; 12]
  = Ok [0; 9; 3; 12; 6; 10; 1; 13; 4; 7; 8; 11; 2; 5].
Proof. vm_compute. reflexivity. Qed.

(* 3a. compare_order: with the table built by Comparable(reverse, false, nullLast), Compare answers
   LessThan / GreaterThan / a tie exactly when the order of the property text (natural order of the
   values, null smaller than every value resp. larger with NullLast, Reverse inverting the complete
   order) says smaller / larger / neither.  Premise: the value order is asymmetric on non-null rows. *)
Theorem C03_compare_order (rev nl : bool) (isnull : nat -> bool) (vlt : nat -> nat -> bool) (a b : nat) :
  asym_on (nonnull isnull) vlt ->
  cmp3 (compare_rows (mk_cmpcfg rev false nl) isnull vlt a b)
  = cmp_of_lt (key_lt_spec rev nl isnull vlt) a b.
Proof. exact (compare_rows_spec rev nl isnull vlt a b). Qed.
Print Assumptions C03_compare_order.

(* the order of the property text, clause by clause *)
Theorem C03_key_order_values (nl : bool) isnull vlt a b :
  isnull a = false -> isnull b = false -> key_lt_spec false nl isnull vlt a b = vlt a b.
Proof. exact (key_lt_spec_values nl isnull vlt a b). Qed.
Print Assumptions C03_key_order_values.

Theorem C03_key_order_null (nl : bool) isnull vlt a b :
  isnull a = true -> isnull b = false ->
  key_lt_spec false nl isnull vlt a b = negb nl /\ key_lt_spec false nl isnull vlt b a = nl.
Proof. exact (key_lt_spec_null nl isnull vlt a b). Qed.
Print Assumptions C03_key_order_null.

Theorem C03_key_order_null_null (rev nl : bool) isnull vlt a b :
  isnull a = true -> isnull b = true -> key_lt_spec rev nl isnull vlt a b = false.
Proof. exact (key_lt_spec_null_null rev nl isnull vlt a b). Qed.
Print Assumptions C03_key_order_null_null.

Theorem C03_key_order_reverse (nl : bool) isnull vlt a b :
  key_lt_spec true nl isnull vlt a b = key_lt_spec false nl isnull vlt b a.
Proof. exact (key_lt_spec_reverse nl isnull vlt a b). Qed.
Print Assumptions C03_key_order_reverse.

(* the per-type Compare methods are this Compare (fcolumn tests the values first, bcolumn has its own
   shape, icolumn has no nulls) *)
Theorem C03_compare_float cfg isnan vlt a b :
  (forall x y, isnan x = true \/ isnan y = true -> vlt x y = false) ->
  compare_rows_float cfg isnan vlt a b = compare_rows cfg isnan vlt a b.
Proof. exact (compare_rows_float_eq cfg isnan vlt a b). Qed.
Print Assumptions C03_compare_float.

Theorem C03_compare_bool cfg v a b :
  compare_rows_bool cfg v a b
  = compare_rows cfg (fun _ => false) (fun i j => negb (v i) && v j) a b.
Proof. exact (compare_rows_bool_eq cfg v a b). Qed.
Print Assumptions C03_compare_bool.

(* 3b. Sorter.Less over the keys is the lexicographic order of the property text ... *)
Theorem C03_less_is_lexicographic (ks : list keydesc) (a b : nat) :
  Forall (fun k => asym_on (nonnull (kd_isnull k)) (kd_vlt k)) ks ->
  less_keys (map kd_compare ks) a b = lex_lt_spec (map kd_spec ks) a b.
Proof. exact (less_keys_spec ks a b). Qed.
Print Assumptions C03_less_is_lexicographic.

(* ... and a strict weak order (irreflexive, transitive, incomparability transitive) *)
Theorem C03_less_lex_swo (ks : list keydesc) :
  Forall (fun k => strict_weak_order_on (nonnull (kd_isnull k)) (kd_vlt k)) ks ->
  strict_weak_order (less_keys (map kd_compare ks)).
Proof. exact (less_keys_swo ks). Qed.
Print Assumptions C03_less_lex_swo.

Example C03_less_lex_swo_example :
  let ranks := [3; 1; 4; 1; 5; 9; 2; 6]%N in
  let k := {| kd_isnull := fun i => N.eqb (nth i ranks 0%N) 1;
              kd_vlt := fun a b => N.ltb (nth a ranks 0%N) (nth b ranks 0%N);
              kd_rev := true; kd_nl := true |} in
  Forall (fun k => strict_weak_order_on (nonnull (kd_isnull k)) (kd_vlt k)) [k; k].
Proof.
  intros ranks k. repeat apply Forall_cons; try apply Forall_nil;
    apply (swo_of_rank _ (fun a => nth a ranks 0%N)).
Qed.

(* 4. The boolean checker run on the implementation's output (the property oracle of engine "sort"). *)
Theorem sorted_perm_b_correct (lt : nat -> nat -> bool) (input output : list nat) :
  sorted_perm_b lt input output = true <->
  Permutation output input /\
  (forall i a b, nth_error output i = Some a -> nth_error output (S i) = Some b -> lt b a = false).
Proof. exact (sorted_perm_b_correct' lt input output). Qed.
Print Assumptions sorted_perm_b_correct.

(* for a strict weak order, no adjacent inversion means no inversion at all: rows never decrease *)
Theorem C03_adjacent_is_global (lt : nat -> nat -> bool) (l : list nat) :
  strict_weak_order lt ->
  (forall i a b, nth_error l i = Some a -> nth_error l (S i) = Some b -> lt b a = false) ->
  forall i j a b, i < j -> nth_error l i = Some a -> nth_error l j = Some b -> lt b a = false.
Proof. exact (no_adjacent_inversion_all lt l). Qed.
Print Assumptions C03_adjacent_is_global.

(* 2. No panic: for ANY Less (even an inconsistent one) every data[i] of the sorter is in range and
   the fuel of every loop of the model suffices. *)
Theorem C03_no_panic (lt : nat -> nat -> bool) (ids : list nat) :
  exists out, sort_ids lt ids = Ok out /\ length out = length ids.
Proof. exact (sort_ids_safe lt ids). Qed.
Print Assumptions C03_no_panic.

Theorem C03_no_panic' (lt : nat -> nat -> bool) (ids : list nat) :
  sort_ids lt ids <> Panic /\ sort_ids lt ids <> Fail.
Proof. exact (sort_ids_no_panic lt ids). Qed.
Print Assumptions C03_no_panic'.

(* the positions returned by doPivot stay inside the range and make both sub-ranges strictly
   smaller, so the truncated subtractions of the model are the exact Go values *)
Theorem C03_do_pivot_range (lt : nat -> nat -> bool) (lo hi : nat) (s : list nat) :
  12 < hi - lo -> hi <= length s ->
  exists mlo mhi s', do_pivot lt lo hi s = Ok (mlo, mhi, s') /\ length s' = length s /\
    lo <= mlo < hi /\ lo < mhi <= hi.
Proof. exact (do_pivot_safe lt lo hi s). Qed.
Print Assumptions C03_do_pivot_range.

(* 3c. The five concrete column types (int, float on IEEE bit patterns with NaN = null and -0 = +0,
   bool, string bytewise, enum by declared rank) as the engine decodes them: Sorter.Less as modelled
   (model_lt, drives the exact replay) IS the order worded by the property (spec_lt, drives the
   oracle), for every list of keys and every Reverse / NullLast; and it is a strict weak order. *)
Theorem C03_model_lt_is_spec (keys : list keyspec) (a b : nat) : model_lt keys a b = spec_lt keys a b.
Proof. exact (model_lt_spec keys a b). Qed.
Print Assumptions C03_model_lt_is_spec.

Theorem C03_model_lt_swo (keys : list keyspec) : strict_weak_order (model_lt keys).
Proof. exact (model_lt_swo keys). Qed.
Print Assumptions C03_model_lt_swo.

(* 5. Second wave: sortedness of the insertion sort and of the heap sort, for any strict weak order.
   [sorted_range lt s a b]: no inversion between any two positions of [a, b). *)
Theorem C03_insertion_sorted (lt : nat -> nat -> bool) (a b : nat) (s : list nat) :
  strict_weak_order lt -> b <= length s ->
  exists s', insertion_sort lt a b s = Ok s' /\ length s' = length s /\
    (forall i j, a <= i -> i < j -> j < b -> lt (nth j s' 0) (nth i s' 0) = false).
Proof. exact (fun W => insertion_sort_sorted lt W a b s). Qed.
Print Assumptions C03_insertion_sorted.

Theorem C03_heap_sorted (lt : nat -> nat -> bool) (a b : nat) (s : list nat) :
  strict_weak_order lt -> a <= b -> b <= length s ->
  exists s', heap_sort lt a b s = Ok s' /\ length s' = length s /\
    (forall i j, a <= i -> i < j -> j < b -> lt (nth j s' 0) (nth i s' 0) = false) /\
    frame a s s' (b - a).
Proof. exact (fun W => heap_sort_sorted' lt W a b s). Qed.
Print Assumptions C03_heap_sorted.

(* the heapsort fallback of quickSort (maxDepth exhausted on a range of more than 12 elements):
   the range ends up sorted, the slice is permuted, everything outside the range is untouched *)
Theorem C03_sorted_heap_fallback (lt : nat -> nat -> bool) (fuel a b : nat) (s : list nat) :
  strict_weak_order lt -> a <= b -> b <= length s -> 12 < b - a ->
  exists s', quick_sort lt (S fuel) a b 0 s = Ok s' /\ length s' = length s /\
    (forall i j, a <= i -> i < j -> j < b -> lt (nth j s' 0) (nth i s' 0) = false) /\
    Permutation s' s /\ (forall q, q < a \/ b <= q -> nth q s' 0 = nth q s 0).
Proof. exact (fun W => quick_sort_heap_fallback lt W fuel a b s). Qed.
Print Assumptions C03_sorted_heap_fallback.

(* Sort on at most 12 rows (shell pass + insertion sort): the output has no inversion *)
Theorem C03_sorted_partial_small (lt : nat -> nat -> bool) (ids out : list nat) :
  strict_weak_order lt -> length ids <= 12 -> sort_ids lt ids = Ok out ->
  forall i j a b, i < j -> nth_error out i = Some a -> nth_error out j = Some b -> lt b a = false.
Proof. exact (fun W => sort_ids_sorted_small lt W ids out). Qed.
Print Assumptions C03_sorted_partial_small.

Example C03_sorted_small_example :
  strict_weak_order (rank_lt [3; 1; 2; 1; 0]%N) /\ length [4; 3; 2; 1; 0] <= 12.
Proof. split; [apply (swo_of_rank _ (fun a => nthd [3; 1; 2; 1; 0]%N 0%N a))|cbn; lia]. Qed.

(* 6. Third wave: the quicksort regime (13 rows and more), for any strict weak order.
   6a. The partition post-condition of doPivot (loop invariants of sorter.go): on a range [lo, hi) of
   more than 12 elements doPivot answers (midlo, midhi) with lo <= midlo < midhi <= hi and, with
   pivot = data[midlo] afterwards,
     data[lo, midlo) <= pivot,  data[midlo, midhi) neither smaller nor larger than pivot,
     data[midhi, hi) >= pivot;
   nothing outside [lo, hi) moves and every value of the range was a value of the range before. *)
Theorem C03_do_pivot_partition (lt : nat -> nat -> bool) (lo hi : nat) (s : list nat) :
  strict_weak_order lt -> 12 < hi - lo -> hi <= length s ->
  exists mlo mhi s', do_pivot lt lo hi s = Ok (mlo, mhi, s') /\
    (length s' = length s /\
     (forall q, q < lo \/ hi <= q -> nth q s' 0 = nth q s 0) /\
     (forall p, lo <= p -> p < hi -> exists p', lo <= p' /\ p' < hi /\ nth p s' 0 = nth p' s 0)) /\
    lo <= mlo /\ mlo < mhi /\ mhi <= hi /\
    (forall i, lo <= i -> i < mlo -> lt (nth mlo s' 0) (nth i s' 0) = false) /\
    (forall i, mlo <= i -> i < mhi ->
       lt (nth mlo s' 0) (nth i s' 0) = false /\ lt (nth i s' 0) (nth mlo s' 0) = false) /\
    (forall i, mhi <= i -> i < hi -> lt (nth i s' 0) (nth mlo s' 0) = false).
Proof. exact (fun W => do_pivot_partition lt W lo hi s). Qed.
Print Assumptions C03_do_pivot_partition.

Example C03_do_pivot_partition_example :
  let ranks := [0; 7; 4; 1; 8; 5; 2; 9; 6; 3; 0; 7; 4; 1; 8; 5; 2; 9; 6; 3; 0; 7]%N in
  let s := [21; 20; 19; 18; 17; 16; 15; 14; 13; 12; 11; 10; 9; 8; 7; 6; 5; 4; 3; 2; 1; 0] in
  strict_weak_order (rank_lt ranks) /\ 12 < 20 - 2 /\ 20 <= length s /\
  do_pivot (rank_lt ranks) 2 20 s
  = Ok (8, 9, [21; 20; 13; 3; 6; 16; 9; 10; 19; 12; 11; 14; 15; 8; 7; 17; 5; 4; 18; 2; 1; 0]).
Proof.
  intros ranks s. split; [apply (swo_of_rank _ (fun a => nthd ranks 0%N a))|].
  split; [cbn; lia|]. split; [cbn; lia|]. vm_compute. reflexivity.
Qed.

(* 6b. quickSort on any range, with any maxDepth and any fuel above the range length: the range ends
   up without inversion, nothing outside moves, every value of the range was there before. *)
Theorem C03_quick_sort_sorted (lt : nat -> nat -> bool) (fuel a b d : nat) (s : list nat) :
  strict_weak_order lt -> a <= b -> b <= length s -> b - a < fuel ->
  exists s', quick_sort lt fuel a b d s = Ok s' /\
    (length s' = length s /\
     (forall q, q < a \/ b <= q -> nth q s' 0 = nth q s 0) /\
     (forall p, a <= p -> p < b -> exists p', a <= p' /\ p' < b /\ nth p s' 0 = nth p' s 0)) /\
    (forall i j, a <= i -> i < j -> j < b -> lt (nth j s' 0) (nth i s' 0) = false).
Proof. exact (fun W => quick_sort_sorted lt W fuel a b d s). Qed.
Print Assumptions C03_quick_sort_sorted.

(* both only permute their range: data[lo:hi] afterwards is a permutation of data[lo:hi] before *)
Theorem C03_do_pivot_range_perm (lt : nat -> nat -> bool) (lo hi : nat) (s : list nat) mlo mhi s' :
  strict_weak_order lt -> 12 < hi - lo -> hi <= length s -> do_pivot lt lo hi s = Ok (mlo, mhi, s') ->
  Permutation (firstn (hi - lo) (skipn lo s')) (firstn (hi - lo) (skipn lo s)).
Proof. exact (fun W => do_pivot_range_perm lt W lo hi s mlo mhi s'). Qed.
Print Assumptions C03_do_pivot_range_perm.

Theorem C03_quick_sort_range_perm (lt : nat -> nat -> bool) (fuel a b d : nat) (s s' : list nat) :
  strict_weak_order lt -> a <= b -> b <= length s -> b - a < fuel ->
  quick_sort lt fuel a b d s = Ok s' ->
  Permutation (firstn (b - a) (skipn a s')) (firstn (b - a) (skipn a s)).
Proof. exact (fun W => quick_sort_range_perm lt W fuel a b d s s'). Qed.
Print Assumptions C03_quick_sort_range_perm.

(* 6c. Sort(): for every strict weak order Less, every index of every length (all regimes of the
   sorter: insertion sort, median of three, ninther, heapsort fallback) the output has no inversion. *)
Definition C03_sorted_full_statement : Prop :=
  forall (lt : nat -> nat -> bool) (ids out : list nat),
    strict_weak_order lt -> sort_ids lt ids = Ok out ->
    forall i j a b, i < j -> nth_error out i = Some a -> nth_error out j = Some b -> lt b a = false.

Theorem C03_sorted : C03_sorted_full_statement.
Proof. exact (fun lt ids out W => sort_ids_sorted lt W ids out). Qed.
Print Assumptions C03_sorted.

Example C03_sorted_example :
  let ranks := [0; 7; 4; 1; 8; 5; 2; 9; 6; 3; 0; 7; 4; 1; 8; 5; 2; 9; 6; 3; 0; 7; 4; 1; 8;
                5; 2; 9; 6; 3; 0; 7; 4; 1; 8; 5; 2; 9; 6; 3; 0; 7; 4; 1; 8; 5; 2; 9; 6; 3]%N in
  strict_weak_order (rank_lt ranks) /\
  sort_ids (rank_lt ranks) (seq 0 50)
  = Ok [10; 30; 20; 40; 0; 43; 23; 13; 33; 3; 6; 36; 16; 46; 26; 9; 29; 39; 19; 49; 12; 22; 2; 42; 32;
        45; 15; 5; 35; 25; 18; 28; 8; 48; 38; 31; 1; 21; 41; 11; 14; 24; 4; 44; 34; 37; 7; 27; 47; 17].
Proof.
  intros ranks. split; [apply (swo_of_rank _ (fun a => nthd ranks 0%N a))|]. vm_compute. reflexivity.
Qed.

(* total form: Sort() answers (no panic), the answer is a permutation of the index and has no inversion *)
Theorem C03_sort_correct (lt : nat -> nat -> bool) (ids : list nat) :
  strict_weak_order lt ->
  exists out, sort_ids lt ids = Ok out /\ Permutation out ids /\
    forall i j a b, i < j -> nth_error out i = Some a -> nth_error out j = Some b -> lt b a = false.
Proof. exact (fun W => sort_ids_correct lt W ids). Qed.
Print Assumptions C03_sort_correct.

(* 7. The statement of the property on the modelled sorter, without any premise: for every list of
   keys over the five column types with every Reverse / NullLast (the Comparables as Sorter.Less
   consults them, model_lt), for every index: Sort() answers, returns every row id of the index
   exactly once, and no row is followed by a row that is smaller in the order worded by the property
   (spec_lt: lexicographic; natural order per type; null/NaN smallest, largest with NullLast; Reverse
   inverting the complete order of the key). *)
Definition C03_full_statement : Prop :=
  forall (keys : list keyspec) (ids : list nat),
    exists out, sort_ids (model_lt keys) ids = Ok out /\ Permutation out ids /\
      forall i j a b, i < j -> nth_error out i = Some a -> nth_error out j = Some b ->
                      spec_lt keys b a = false.

Theorem C03_sort_by_keys : C03_full_statement.
Proof. exact sort_ids_by_keys. Qed.
Print Assumptions C03_sort_by_keys.

(* 8. Model and oracle are consistent: the verified checker accepts the model's own output, so an
   implementation output that passes the exact comparison with the model (no code 1) can never be
   rejected by the property oracle (code 2). *)
Theorem C03_checker_accepts_model (lt : nat -> nat -> bool) (ids out : list nat) :
  strict_weak_order lt -> sort_ids lt ids = Ok out -> sorted_perm_b lt ids out = true.
Proof. exact (sort_ids_checker_accepts lt ids out). Qed.
Print Assumptions C03_checker_accepts_model.

Theorem C03_checker_accepts_model_keys (keys : list keyspec) (ids out : list nat) :
  sort_ids (model_lt keys) ids = Ok out -> sorted_perm_b (spec_lt keys) ids out = true.
Proof. exact (sort_ids_checker_accepts_keys keys ids out). Qed.
Print Assumptions C03_checker_accepts_model_keys.

Example C03_checker_accepts_model_keys_example :
  let keys := [(KBool [true; false; true; false; true; false; true; false; true; false; true; false;
                       true; false; true; false], (true, false));
               (KStr [Some [3]; None; Some [1; 2]; Some [1]; None; Some [2]; Some []; Some [3];
                      Some [1]; None; Some [2; 0]; Some [2]; Some [9]; Some [0]; None; Some [1; 2]]%N,
                (false, true))] in
  sort_ids (model_lt keys) (seq 0 16) = Ok [6; 8; 2; 10; 0; 12; 14; 4; 13; 3; 15; 5; 11; 7; 1; 9].
Proof. vm_compute. reflexivity. Qed.

(* the premise of 6c is needed: with an inconsistent Less (1 < 0 and 0 < 1) every output has an inversion *)
Example C03_sorted_needs_order_example :
  let lt := fun a b : nat => negb (a =? b) in
  sort_ids lt [0; 1] = Ok [1; 0] /\ lt 0 1 = true /\ lt 1 0 = true.
Proof. vm_compute. repeat split; reflexivity. Qed.
