(* Tie T1 for the frame-level operations of qframe.go (properties C08, C10, C06, C01) — not one of the 19 properties,
   compiled with them.  Gen/GenQFrameOps.v is produced by tools/qf2coq/qframeops.go from the Go text of qframe.go
   (QFrame.withErr, withIndex, Contains, Len, ColumnNames, checkColumns, Select, Drop, Slice, setColumn, Copy,
   constCount, createColumn, New, apply0, apply1, apply2, Apply, WithRowNums, FilteredApply, Sort, Equals, Eval,
   ColumnTypes, ColumnTypeMap; the structs namedColumn, QFrame, Instruction, Order, Const*, newqf.Config, eval.Config) and of internal/strings/set.go (NewStringSet, Contains), statement by
   statement.  Every theorem below says: the definition generated from the Go source computes the hand-written
   model function of Model/Frame.v / Model/Ops.v that the proofs of the properties and the frameops engine use —
   for all inputs.  An edit of one of these Go functions changes the generated text at the next run and the
   theorem of that function stops compiling.

   Reading aid.  The generated code works on the Go record gq_QFrame (columns : list of namedColumn{Column, name,
   pos}; columnsByName : a Go map, here an association list without repeated keys; index; Err : option E) with
   row ids = nat, column values = the model's coldata, E any type of error values.  [rep q f] is the
   representation relation between such a record and a model frame f (Proofs/GenQFrameOpsProofs.v):
       columns q  = the model's column list, entry i carrying pos = i,
       index q    = ix f,     Err q <> nil  iff  ferr f,
       the map has no repeated key and, for EVERY name n, holds namedColumn{c, n, p} exactly when the model's
       reading of the map, Frame.lookup f n (the LAST column called n and its position), is Some (p, c).
   T1_qframe_rep_total: every model frame is represented; T1_qframe_rep_functional: rep q f determines f (= absq q).
   So "gq_F q args = Ok q' and rep q' (model_F f args)" reads: the Go function, run on any representation of f,
   does not panic and answers a representation of what the model answers.  Panic on the generated side = the Go
   function panics.  There is no fuel: every loop ranges over a slice or a map.  Where Go leaves the iteration order
   of a map open (setColumn's copy loop) the generated function takes the order as the argument [ord] and the
   theorem holds for every ord that answers a permutation ([perm_order ord]).  Error VALUES are abstract (new_error,
   propagate, checkname_error, unknownCol are arbitrary functions); the model only keeps whether Err is set. *)
From Coq Require Import Permutation.
From QF Require Import Base.Prelude Gen.GenQFrameOps.
From QF Require Import Model.Frame Model.Filter Model.Ops Model.Sort Model.SortFrame Model.Eval Proofs.GenQFrameOpsProofs.
From QF Require Proofs.SortFrameProofs Proofs.GenExprTreeProofs.
Local Open Scope N_scope.

(* ------------------------------------------------------------------ the representation relation *)

Theorem T1_qframe_rep_total (E : Type) (e : E) (f : frame) : rep (embed e f) f.
Proof. exact (embed_rep (fun _ _ => e) (fun _ _ => e) (fun _ => e) (fun b => b) e f). Qed.
Print Assumptions T1_qframe_rep_total.

Theorem T1_qframe_rep_functional (E : Type) (q : gq_QFrame nat E coldata) (f : frame) : rep q f -> absq q = f.
Proof. exact (rep_absq q f). Qed.
Print Assumptions T1_qframe_rep_functional.

(* a frame with a repeated column name, a derived index; its Go representation *)
Definition ex_f : frame :=
  mkFrame [([97], ICol [1; 2; 3]%Z); ([98], SCol [Some [120]; None; Some []]); ([97], BCol [true; false; true])]
          [2; 0]%nat false.
Definition ex_q : gq_QFrame nat unit coldata := embed tt ex_f.
Example T1_qframe_rep_example : rep ex_q ex_f.
Proof. exact (embed_rep (fun _ _ => tt) (fun _ _ => tt) (fun _ => tt) (fun b => b) tt ex_f). Qed.
(* the by-name map of that frame: "a" resolves to the third column *)
Example T1_qframe_rep_example_map :
  gq_QFrame_columnsByName ex_q
  = [([97], gq_mk_namedColumn (BCol [true; false; true]) [97] 2%Z); ([98], gq_mk_namedColumn (SCol [Some [120]; None; Some []]) [98] 1%Z)].
Proof. vm_compute. reflexivity. Qed.

(* two orders in which a range may visit a map *)
Example T1_qframe_perm_order_id : perm_order (fun _ m => m).
Proof. exact (fun V m => Permutation_refl m). Qed.
Example T1_qframe_perm_order_rev : perm_order (fun _ m => rev m).
Proof. exact (fun V m => Permutation_sym (Permutation_rev m)). Qed.

(* ------------------------------------------------------------------ withErr, withIndex, Contains, Len, ColumnNames *)

Theorem T1_qframe_withErr (E : Type) (q : gq_QFrame nat E coldata) (f : frame) (e : E) :
  rep q f -> exists q', gq_QFrame_withErr q (Some e) = Ok q' /\ rep q' (with_err f).
Proof. exact (gq_withErr_rep q f e). Qed.
Print Assumptions T1_qframe_withErr.

Theorem T1_qframe_withIndex (E : Type) (q : gq_QFrame nat E coldata) (f : frame) (i : list nat) :
  rep q f -> exists q', gq_QFrame_withIndex q i = Ok q' /\ rep q' (with_ix f i).
Proof. exact (gq_withIndex_rep q f i). Qed.
Print Assumptions T1_qframe_withIndex.

Theorem T1_qframe_Contains (E : Type) (q : gq_QFrame nat E coldata) (f : frame) (n : bytes) :
  rep q f -> gq_QFrame_Contains q n = Ok (contains f n).
Proof. exact (gq_Contains_eq q f n). Qed.
Print Assumptions T1_qframe_Contains.

Theorem T1_qframe_Len (E : Type) (q : gq_QFrame nat E coldata) (f : frame) :
  rep q f -> gq_QFrame_Len q = Ok (frame_len f).
Proof. exact (gq_Len_eq q f). Qed.
Print Assumptions T1_qframe_Len.

Theorem T1_qframe_ColumnNames (E : Type) (q : gq_QFrame nat E coldata) (f : frame) :
  rep q f -> gq_QFrame_ColumnNames q = Ok (col_names f).
Proof. exact (gq_ColumnNames_eq q f). Qed.
Print Assumptions T1_qframe_ColumnNames.
Example T1_qframe_ColumnNames_example : gq_QFrame_ColumnNames ex_q = Ok [[97]; [98]; [97]] /\ gq_QFrame_Len ex_q = Ok 2%Z.
Proof. vm_compute. split; reflexivity. Qed.

(* checkColumns answers nil exactly when the model finds every name *)
Theorem T1_qframe_checkColumns (E : Type) (new_error : bytes -> bytes -> E) (unknownCol : bytes -> bytes)
  (q : gq_QFrame nat E coldata) (f : frame) (op : bytes) (names : list bytes) :
  rep q f ->
  exists r, gq_QFrame_checkColumns new_error unknownCol q op names = Ok r /\ gq_isnil r = forallb (contains f) names.
Proof. exact (gq_checkColumns_eq new_error unknownCol q f op names). Qed.
Print Assumptions T1_qframe_checkColumns.

(* ------------------------------------------------------------------ Select, Drop, Slice *)

Theorem T1_qframe_Select (E : Type) (col_nil : coldata) (new_error : bytes -> bytes -> E) (unknownCol : bytes -> bytes)
  (q : gq_QFrame nat E coldata) (f : frame) (names : list bytes) :
  rep q f -> exists q', gq_QFrame_Select col_nil new_error unknownCol q names = Ok q' /\ rep q' (select f names).
Proof.
  exact (gq_Select_rep col_nil new_error (fun _ _ => new_error [] []) (fun _ => new_error [] []) unknownCol q f names).
Qed.
Print Assumptions T1_qframe_Select.
(* Select("b", "a", "a") on the example: three columns, "a" now resolves to position 2; an unknown name sets Err *)
Example T1_qframe_Select_example :
  option_map absq (match gq_QFrame_Select (ICol []) (fun _ _ => tt) (fun b => b) ex_q [[98]; [97]; [97]] with Ok q' => Some q' | _ => None end)
  = Some (select ex_f [[98]; [97]; [97]])
  /\ option_map (fun q' => gq_mget (gq_QFrame_columnsByName q') [97])
       (match gq_QFrame_Select (ICol []) (fun _ _ => tt) (fun b => b) ex_q [[98]; [97]; [97]] with Ok q' => Some q' | _ => None end)
     = Some (Some (gq_mk_namedColumn (BCol [true; false; true]) [97] 2%Z))
  /\ option_map absq (match gq_QFrame_Select (ICol []) (fun _ _ => tt) (fun b => b) ex_q [[99]] with Ok q' => Some q' | _ => None end)
     = Some (with_err ex_f).
Proof. vm_compute. repeat split; reflexivity. Qed.

Theorem T1_qframe_Drop (E : Type) (col_nil : coldata) (new_error : bytes -> bytes -> E) (unknownCol : bytes -> bytes)
  (q : gq_QFrame nat E coldata) (f : frame) (names : list bytes) :
  rep q f -> exists q', gq_QFrame_Drop col_nil new_error unknownCol q names = Ok q' /\ rep q' (drop f names).
Proof.
  exact (gq_Drop_rep col_nil new_error (fun _ _ => new_error [] []) (fun _ => new_error [] []) unknownCol q f names).
Qed.
Print Assumptions T1_qframe_Drop.
Example T1_qframe_Drop_example :
  option_map absq (match gq_QFrame_Drop (ICol []) (fun _ _ => tt) (fun b => b) ex_q [[98]; [120]] with Ok q' => Some q' | _ => None end)
  = Some (drop ex_f [[98]; [120]]).
Proof. vm_compute. reflexivity. Qed.

(* all three bounds checks; the slice expression qf.index[start:end] never faults *)
Theorem T1_qframe_Slice (E : Type) (new_error : bytes -> bytes -> E) (q : gq_QFrame nat E coldata) (f : frame) (a b : Z) :
  rep q f -> exists q', gq_QFrame_Slice new_error q a b = Ok q' /\ rep q' (slice f a b).
Proof. exact (gq_Slice_rep new_error q f a b). Qed.
Print Assumptions T1_qframe_Slice.
Example T1_qframe_Slice_example :
  option_map absq (match gq_QFrame_Slice (fun _ _ => tt) ex_q 1%Z 2%Z with Ok q' => Some q' | _ => None end) = Some (slice ex_f 1%Z 2%Z)
  /\ option_map absq (match gq_QFrame_Slice (fun _ _ => tt) ex_q 1%Z 3%Z with Ok q' => Some q' | _ => None end) = Some (with_err ex_f).
Proof. vm_compute. split; reflexivity. Qed.

(* ------------------------------------------------------------------ setColumn, Copy *)

(* premise: ord, the order in which `for k, v := range qf.columnsByName` visits the map, is a permutation *)
Theorem T1_qframe_setColumn (E : Type) (col_nil : coldata) (propagate : bytes -> option E -> E) (checkname_error : bytes -> E)
  (ord : forall V : Type, gq_map V -> gq_map V) (q : gq_QFrame nat E coldata) (f : frame) (name : bytes) (c : coldata) :
  perm_order ord -> rep q f ->
  exists q', gq_QFrame_setColumn col_nil propagate checkname_error ord q name c = Ok q' /\ rep q' (set_column f name c).
Proof.
  exact (gq_setColumn_rep col_nil (fun _ _ => checkname_error []) propagate checkname_error (fun b => b) ord q f name c).
Qed.
Print Assumptions T1_qframe_setColumn.
(* replacing "a" (the third column, where the map points), appending "c", an illegal name; the map visited backwards *)
Example T1_qframe_setColumn_example :
  let run n := option_map absq (match gq_QFrame_setColumn (ICol []) (fun _ _ => tt) (fun _ => tt) (fun _ m => rev m) ex_q n (ICol [7; 8; 9]%Z)
                                 with Ok q' => Some q' | _ => None end) in
  run [97] = Some (set_column ex_f [97] (ICol [7; 8; 9]%Z)) /\ run [99] = Some (set_column ex_f [99] (ICol [7; 8; 9]%Z))
  /\ run [36; 97] = Some (with_err ex_f).
Proof. vm_compute. repeat split; reflexivity. Qed.

Theorem T1_qframe_Copy (E : Type) (col_nil : coldata) (new_error : bytes -> bytes -> E) (propagate : bytes -> option E -> E)
  (checkname_error : bytes -> E) (unknownCol : bytes -> bytes) (ord : forall V : Type, gq_map V -> gq_map V)
  (q : gq_QFrame nat E coldata) (f : frame) (dst src : bytes) :
  perm_order ord -> rep q f ->
  exists q', gq_QFrame_Copy col_nil new_error propagate checkname_error unknownCol ord q dst src = Ok q'
             /\ rep q' (copy f dst src).
Proof. exact (gq_Copy_rep col_nil new_error propagate checkname_error unknownCol ord q f dst src). Qed.
Print Assumptions T1_qframe_Copy.
Example T1_qframe_Copy_example :
  option_map absq (match gq_QFrame_Copy (ICol []) (fun _ _ => tt) (fun _ _ => tt) (fun _ => tt) (fun b => b) (fun _ m => m) ex_q [98] [97]
                   with Ok q' => Some q' | _ => None end)
  = Some (copy ex_f [98] [97]).
Proof. vm_compute. reflexivity. Qed.

(* ------------------------------------------------------------------ createColumn, New *)

(* The abstraction boundary: the column constructors icolumn.New .. ecolumn.NewConst, Column.Len, index.NewAscending,
   newqf.NewConfig and sort.Strings are ARGUMENTS of the generated createColumn / New.  m_createColumn / m_New are the
   generated functions with these arguments set to the model's readings (ICol d, repeat v n, enum_new, enum_new_const,
   col_len, seq 0 n — Proofs/GenQFrameOpsProofs.v); newqf.NewConfig and sort.Strings stay arguments (ncfg, srt).
   A DataSlice is a value tagged with its dynamic type ([dyn_of d]: the type switch of createColumn is a match on the
   tag; DOther is a value of a type createColumn does not list); the data map is [gdata_of data].  Pre-built columns
   and StringBlob values are outside Ops.newdata, hence outside these two theorems. *)

(* createColumn = Ops.create_column, given the enum declaration it finds under the column's name (consulted only
   for string data); on success with a declaration the declaration is deleted from the config, otherwise the
   config is unchanged *)
Theorem T1_qframe_createColumn (E : Type) (col_nil : coldata) (new_error : bytes -> bytes -> E)
  (propagate : bytes -> option E -> E) (enum_error : E) (name : bytes) (d : newdata) (cfg : gq_Config) :
  match create_column d (enum_for d cfg name) with
  | Ok c => m_createColumn col_nil new_error propagate enum_error name (dyn_of d) cfg
            = Ok (c, None, match enum_for d cfg name with Some _ => cfg_used cfg name | None => cfg end)
  | Fail => exists e, m_createColumn col_nil new_error propagate enum_error name (dyn_of d) cfg = Ok (col_nil, Some e, cfg)
  | Panic => m_createColumn col_nil new_error propagate enum_error name (dyn_of d) cfg = Panic
  end.
Proof. exact (gq_createColumn_eq col_nil new_error propagate (fun _ => enum_error) enum_error name d cfg). Qed.
Print Assumptions T1_qframe_createColumn.
(* a []string column declared as enum: converted to []*string, the declaration consumed; a negative count; an unknown type *)
Example T1_qframe_createColumn_example :
  let cfg := gq_mk_Config [] [([98], [[121]; [120]])] in
  m_createColumn (ICol []) (fun _ _ => tt) (fun _ _ => tt) tt [98] (dyn_of (DStrings [[120]; [121]; [120]])) cfg
  = Ok (ECol [1; 0; 1] [[121]; [120]] true, None, gq_mk_Config [] [])
  /\ m_createColumn (ICol []) (fun _ _ => tt) (fun _ _ => tt) tt [97] (dyn_of (DConstInt 5 (-1))) cfg = Ok (ICol [], Some tt, cfg)
  /\ m_createColumn (ICol []) (fun _ _ => tt) (fun _ _ => tt) tt [97] (dyn_of DOther) cfg = Ok (ICol [], Some tt, cfg).
Proof. vm_compute. repeat split; reflexivity. Qed.

(* New = Ops.new_frame.  Premises: srt (sort.Strings) sorts canonically; ord1, ord2 (the orders in which the two ranges
   over the data map visit it) are permutations — ord3, the range over the left-over enum declarations, only feeds
   an error message and is arbitrary; the data map and the enum map have no repeated key (they are Go maps);
   newqf.NewConfig(fns) answers the Config with the model's ColumnOrder and Enums; and the resulting frame has fewer
   than 2^32 rows (the index is made by index.NewAscending(uint32(currentLen))). *)
Theorem T1_qframe_New (E CF : Type) (col_nil : coldata) (new_error : bytes -> bytes -> E) (propagate : bytes -> option E -> E)
  (checkname_error : bytes -> E) (enum_error : E) (srt : list bytes -> list bytes) (ncfg : list CF -> outcome gq_Config)
  (ord1 ord2 ord3 : forall V : Type, gq_map V -> gq_map V)
  (data : list (bytes * newdata)) (order : list bytes) (enums : list (bytes * list bytes)) (fns : list CF) :
  sort_canonical srt -> perm_order ord1 -> perm_order ord2 ->
  NoDup (map fst data) -> NoDup (map fst enums) ->
  ncfg fns = Ok (gq_mk_Config order enums) ->
  (forall f, new_frame data order enums = Ok f -> (Z.of_nat (length (ix f)) < 4294967296)%Z) ->
  match new_frame data order enums with
  | Ok f => exists q', m_New col_nil new_error propagate checkname_error enum_error srt ncfg ord1 ord2 ord3 (gdata_of data) fns = Ok q'
                       /\ rep q' f
  | Fail => False
  | Panic => m_New col_nil new_error propagate checkname_error enum_error srt ncfg ord1 ord2 ord3 (gdata_of data) fns = Panic
  end.
Proof.
  exact (gq_New_rep col_nil new_error propagate checkname_error enum_error srt ncfg ord1 ord2 ord3 data order enums fns).
Qed.
Print Assumptions T1_qframe_New.

(* the premises are satisfiable: the model's own sort is canonical ... *)
Example T1_qframe_sort_canonical_example : sort_canonical sort_names.
Proof. exact sort_names_canonical. Qed.
(* ... and a concrete input: two columns, no ColumnOrder (the keys are sorted: a, b), "b" declared as enum *)
Definition ex_data : list (bytes * newdata) := [([98], DStrings [[120]; [121]]); ([97], DInts [1; 2]%Z)].
Definition ex_enums : list (bytes * list bytes) := [([98], [])].
Example T1_qframe_New_example_premises :
  NoDup (map fst ex_data) /\ NoDup (map fst ex_enums)
  /\ (forall f, new_frame ex_data [] ex_enums = Ok f -> (Z.of_nat (length (ix f)) < 4294967296)%Z).
Proof.
  split; [apply nodup_bytes_spec; reflexivity|]. split; [apply nodup_bytes_spec; reflexivity|].
  intros f H. vm_compute in H. inversion H. vm_compute. reflexivity.
Qed.
(* the data map visited backwards by both ranges *)
Example T1_qframe_New_example :
  match m_New (CF := unit) (ICol []) (fun _ _ => tt) (fun _ _ => tt) (fun _ => tt) tt sort_names (fun _ => Ok (gq_mk_Config [] ex_enums))
          (fun _ m => rev m) (fun _ m => rev m) (fun _ m => m) (gdata_of ex_data) [] with
  | Ok q' => Ok (absq q')
  | Fail => Fail
  | Panic => Panic
  end = new_frame ex_data [] ex_enums
  /\ new_frame ex_data [] ex_enums
     = Ok (mkFrame [([97], ICol [1; 2]%Z); ([98], ECol [0; 1] [[120]; [121]] false)] [0; 1]%nat false).
Proof. vm_compute. split; reflexivity. Qed.
(* a ColumnOrder naming a column twice, an enum declaration for a column that is not a string column: Err is set *)
Example T1_qframe_New_example_rejected :
  let run order enums :=
    match m_New (CF := unit) (ICol []) (fun _ _ => tt) (fun _ _ => tt) (fun _ => tt) tt sort_names (fun _ => Ok (gq_mk_Config order enums))
            (fun _ m => m) (fun _ m => m) (fun _ m => m) (gdata_of ex_data) [] with
    | Ok q' => Some (absq q') | _ => None end in
  run [[97]; [97]] [] = Some (mkFrame [] [] true) /\ run [] [([97], [])] = Some (mkFrame [] [] true)
  /\ new_frame ex_data [[97]; [97]] [] = Ok (mkFrame [] [] true) /\ new_frame ex_data [] [([97], [])] = Ok (mkFrame [] [] true).
Proof. vm_compute. repeat split; reflexivity. Qed.

(* ------------------------------------------------------------------ apply0, apply1, apply2, Apply, WithRowNums, FilteredApply *)

(* The abstraction boundary: Column.Apply1 / Column.Apply2 (ca1, ca2) and QFrame.Filter (flt: tied by
   Properties/T1Filter.v) are arguments of the generated functions; the m_.. functions are the generated ones with the
   column constructors, Column.Len and the reading of a row id as a position set to the model's (ICol d, .., col_len,
   Z.of_nat).  Premises: ca1 / ca2 / flt answer what the model's col_apply1 / col_apply2 / frame_filter answer
   ([apply1_ok ut ca1] — a raw slice result is wrapped by apply1 itself, a Column result is taken as it is —,
   [apply2_ok ca2], [filter_ok mt flt]); newqf.NewConfig(nil) answers the empty Config ([ncfg_empty ncfg]); ord is the
   map order of setColumn's copy loop.
   Function values: types.DataFuncOrBuiltInId is interface{}, a value tagged with its dynamic type.  [fn_of fn] is the Go
   value of the model's descriptor fn: a constant is the value itself, func() T is [popper vals] — a function value
   whose successive calls answer the recorded results and which panics when they are used up, as the model's scatter
   does —, a one- or two-argument function or built-in name is a value of a type apply0 does not list (it carries the
   descriptor for the columns).  [fn_wf fn]: fn stands for a Go value (no func() of an enum type, recorded results of
   the declared type, no enum constant).  An Instruction is [ginstr_of i].
   [sim r m]: r = Ok q' with rep q' f' when m = Ok f'; r = Panic when m = Panic (r = Fail when m = Fail: never). *)

(* apply0: the constant column when the frame covers its columns, the closure func() T { return t } when it does not,
   the loop  lData[i] = t()  over the index, the copy for a ColumnName, createColumn + setColumn *)
Theorem T1_qframe_apply0 (E CF : Type) (col_nil : coldata) (new_error : bytes -> bytes -> E) (propagate : bytes -> option E -> E)
  (checkname_error : bytes -> E) (unknownCol : bytes -> bytes) (enum_error : E) (ord : forall V : Type, gq_map V -> gq_map V)
  (ncfg : list CF -> outcome gq_Config) (q : gq_QFrame nat E coldata) (f : frame) (fn : afn) (dst : bytes) :
  perm_order ord -> ncfg_empty ncfg -> fn_wf fn = true -> rep q f ->
  sim (m_apply0 col_nil new_error propagate checkname_error unknownCol enum_error ord ncfg q (fn_of fn) dst) (apply0 f fn dst).
Proof.
  exact (fun Ho Hn => gq_apply0_sim col_nil new_error propagate checkname_error unknownCol enum_error ord Ho ncfg Hn q f fn dst).
Qed.
Print Assumptions T1_qframe_apply0.

(* a constant of the Go type string (not *string) *)
Theorem T1_qframe_apply0_string (E CF : Type) (col_nil : coldata) (new_error : bytes -> bytes -> E) (propagate : bytes -> option E -> E)
  (checkname_error : bytes -> E) (unknownCol : bytes -> bytes) (enum_error : E) (ord : forall V : Type, gq_map V -> gq_map V)
  (ncfg : list CF -> outcome gq_Config) (q : gq_QFrame nat E coldata) (f : frame) (s dst : bytes) :
  perm_order ord -> ncfg_empty ncfg -> rep q f ->
  sim (m_apply0 col_nil new_error propagate checkname_error unknownCol enum_error ord ncfg q (gq_dyn_string s) dst)
      (apply0 f (F0Const (CStr (Some s))) dst).
Proof.
  exact (fun Ho Hn => gq_apply0_string_sim col_nil new_error propagate checkname_error unknownCol enum_error ord Ho ncfg Hn q f s dst).
Qed.
Print Assumptions T1_qframe_apply0_string.

Theorem T1_qframe_apply1 (E : Type) (col_nil : coldata) (new_error : bytes -> bytes -> E) (propagate : bytes -> option E -> E)
  (checkname_error : bytes -> E) (unknownCol : bytes -> bytes) (ord : forall V : Type, gq_map V -> gq_map V)
  (ut : upper_table) (ca1 : coldata -> gq_dyn coldata N unit afn -> list nat -> outcome (gq_dyn coldata N unit afn * option E))
  (q : gq_QFrame nat E coldata) (f : frame) (fn : afn) (dst src : bytes) :
  perm_order ord -> apply1_ok ut ca1 -> rep q f ->
  sim (m_apply1 col_nil new_error propagate checkname_error unknownCol ord ca1 q (fn_of fn) dst src) (apply1 ut f fn dst src).
Proof.
  exact (fun Ho H1 => gq_apply1_sim col_nil new_error propagate checkname_error unknownCol ord Ho ut ca1 H1 q f fn dst src).
Qed.
Print Assumptions T1_qframe_apply1.

Theorem T1_qframe_apply2 (E : Type) (col_nil : coldata) (new_error : bytes -> bytes -> E) (propagate : bytes -> option E -> E)
  (checkname_error : bytes -> E) (unknownCol : bytes -> bytes) (ord : forall V : Type, gq_map V -> gq_map V)
  (ca2 : coldata -> gq_dyn coldata N unit afn -> coldata -> list nat -> outcome (coldata * option E))
  (q : gq_QFrame nat E coldata) (f : frame) (fn : afn) (dst src1 src2 : bytes) :
  perm_order ord -> apply2_ok ca2 -> rep q f ->
  sim (m_apply2 col_nil new_error propagate checkname_error unknownCol ord ca2 q (fn_of fn) dst src1 src2)
      (apply2 f fn dst src1 src2).
Proof.
  exact (fun Ho H2 => gq_apply2_sim col_nil new_error propagate checkname_error unknownCol ord Ho ca2 H2 q f fn dst src1 src2).
Qed.
Print Assumptions T1_qframe_apply2.

(* the dispatch on SrcCol1 == "" / SrcCol2 == "" and the left fold over the instructions *)
Theorem T1_qframe_Apply (E CF : Type) (col_nil : coldata) (new_error : bytes -> bytes -> E) (propagate : bytes -> option E -> E)
  (checkname_error : bytes -> E) (unknownCol : bytes -> bytes) (enum_error : E) (ord : forall V : Type, gq_map V -> gq_map V)
  (ut : upper_table) (ncfg : list CF -> outcome gq_Config)
  (ca1 : coldata -> gq_dyn coldata N unit afn -> list nat -> outcome (gq_dyn coldata N unit afn * option E))
  (ca2 : coldata -> gq_dyn coldata N unit afn -> coldata -> list nat -> outcome (coldata * option E))
  (is : list instr) (q : gq_QFrame nat E coldata) (f : frame) :
  perm_order ord -> ncfg_empty ncfg -> apply1_ok ut ca1 -> apply2_ok ca2 -> forallb instr_wf is = true -> rep q f ->
  sim (m_Apply col_nil new_error propagate checkname_error unknownCol enum_error ord ncfg ca1 ca2 q (map ginstr_of is)) (apply ut f is).
Proof.
  exact (fun Ho Hn H1 H2 => gq_Apply_sim col_nil new_error propagate checkname_error unknownCol enum_error ord Ho ut ncfg Hn ca1 ca2 H1 H2 is q f).
Qed.
Print Assumptions T1_qframe_Apply.

(* WithRowNums: the closure  i++; return i  over the counter started at -1 numbers the rows of the index 0, 1, 2, .. *)
Theorem T1_qframe_WithRowNums (E CF : Type) (col_nil : coldata) (new_error : bytes -> bytes -> E) (propagate : bytes -> option E -> E)
  (checkname_error : bytes -> E) (unknownCol : bytes -> bytes) (enum_error : E) (ord : forall V : Type, gq_map V -> gq_map V)
  (ncfg : list CF -> outcome gq_Config)
  (ca1 : coldata -> gq_dyn coldata N unit afn -> list nat -> outcome (gq_dyn coldata N unit afn * option E))
  (ca2 : coldata -> gq_dyn coldata N unit afn -> coldata -> list nat -> outcome (coldata * option E))
  (q : gq_QFrame nat E coldata) (f : frame) (name : bytes) :
  perm_order ord -> ncfg_empty ncfg -> rep q f ->
  sim (m_WithRowNums col_nil new_error propagate checkname_error unknownCol enum_error ord ncfg ca1 ca2 q name) (with_row_nums f name).
Proof.
  exact (fun Ho Hn => gq_WithRowNums_sim col_nil new_error propagate checkname_error unknownCol enum_error ord Ho ncfg Hn ca1 ca2 q f name).
Qed.
Print Assumptions T1_qframe_WithRowNums.

(* the filtered index is swapped in for the instructions and the receiver's index put back; a failed filter is returned *)
Theorem T1_qframe_FilteredApply (E CF : Type) (col_nil : coldata) (new_error : bytes -> bytes -> E) (propagate : bytes -> option E -> E)
  (checkname_error : bytes -> E) (unknownCol : bytes -> bytes) (enum_error : E) (ord : forall V : Type, gq_map V -> gq_map V)
  (ut : upper_table) (ncfg : list CF -> outcome gq_Config)
  (ca1 : coldata -> gq_dyn coldata N unit afn -> list nat -> outcome (gq_dyn coldata N unit afn * option E))
  (ca2 : coldata -> gq_dyn coldata N unit afn -> coldata -> list nat -> outcome (coldata * option E))
  (mt : matcher_table) (flt : gq_QFrame nat E coldata -> clause -> outcome (gq_QFrame nat E coldata))
  (c : clause) (is : list instr) (q : gq_QFrame nat E coldata) (f : frame) :
  perm_order ord -> ncfg_empty ncfg -> apply1_ok ut ca1 -> apply2_ok ca2 -> filter_ok mt flt ->
  forallb instr_wf is = true -> rep q f ->
  sim (m_FilteredApply col_nil new_error propagate checkname_error unknownCol enum_error ord ncfg ca1 ca2 flt q c (map ginstr_of is))
      (filtered_apply mt ut f c is).
Proof.
  exact (fun Ho Hn H1 H2 => gq_FilteredApply_sim col_nil new_error propagate checkname_error unknownCol enum_error ord Ho ut ncfg Hn ca1 ca2 H1 H2
                              mt flt c is q f).
Qed.
Print Assumptions T1_qframe_FilteredApply.

(* the premises are satisfiable: the model's column functions / frame_filter carried over the representation *)
Example T1_qframe_apply_premises_example (ut : upper_table) (mt : matcher_table) :
  apply1_ok ut (m_col_Apply1 tt ut) /\ apply2_ok (m_col_Apply2 tt)
  /\ filter_ok mt (fun q c => m_lift tt (frame_filter mt (absq q) c))
  /\ ncfg_empty (fun _ : list unit => Ok (gq_mk_Config [] [])).
Proof. exact (conj (m_col_Apply1_ok tt ut) (conj (m_col_Apply2_ok tt) (conj (m_filter_ok tt mt) eq_refl))). Qed.

(* on the example frame (index [2; 0], 3 physical rows): c := not(a) through a recorded func(bool) bool, k := 7 (a constant:
   the frame does not cover its columns, so the closure path runs and row 1 gets the zero value), s := func() int
   answering 10, 20; then WithRowNums *)
Definition ex_is : list instr :=
  [mkInstr (F1 TBool TBool [(CBool true, CBool false); (CBool false, CBool true)]) [99] [97] [];
   mkInstr (F0Const (CInt 7)) [107] [] [];
   mkInstr (F0Stream TInt [CInt 10; CInt 20]) [115] [] []].
Example T1_qframe_Apply_example :
  forallb instr_wf ex_is = true
  /\ match m_Apply (CF := unit) (ICol []) (fun _ _ => tt) (fun _ _ => tt) (fun _ => tt) (fun b => b) tt (fun _ m => rev m)
             (fun _ => Ok (gq_mk_Config [] [])) (m_col_Apply1 tt []) (m_col_Apply2 tt) ex_q (map ginstr_of ex_is) with
     | Ok q' => Ok (absq q') | Fail => Fail | Panic => Panic end
     = apply [] ex_f ex_is
  /\ match apply [] ex_f ex_is with
     | Ok f' => lookup_col f' [107] = Some (ICol [7; 0; 7]%Z) /\ lookup_col f' [115] = Some (ICol [20; 0; 10]%Z)
     | _ => False end.
Proof. vm_compute. repeat split; reflexivity. Qed.
Example T1_qframe_WithRowNums_example :
  match m_WithRowNums (CF := unit) (ICol []) (fun _ _ => tt) (fun _ _ => tt) (fun _ => tt) (fun b => b) tt (fun _ m => m)
          (fun _ => Ok (gq_mk_Config [] [])) (m_col_Apply1 tt []) (m_col_Apply2 tt) ex_q [110] with
  | Ok q' => Ok (absq q') | Fail => Fail | Panic => Panic end
  = with_row_nums ex_f [110]
  /\ match with_row_nums ex_f [110] with Ok f' => lookup_col f' [110] = Some (ICol [1; 0; 0]%Z) | _ => False end.
Proof. vm_compute. split; reflexivity. Qed.

(* ------------------------------------------------------------------ Sort *)

(* The abstraction boundary of Sort: Column.Comparable (cmpf; a Comparable is the pair of the column and its Compare on
   two row ids) and the sorter qfsort.New(ix, columns).Sort() (srt: internal/sort, translated in Gen/GenSorter.v).
   [comparable_ok cmpf]: for equalNull = false — the literal Sort passes — cmpf answers the model's col_comparable.
   Translated: the sticky Err, the empty order list, the by-name lookup of every order column with the unknown-column
   error, Comparable(o.Reverse, false, o.NullLast), the copy of the index, the sorter, withIndex.
   Premise on srt: on this frame it answers what the model's sorter answers behind the model's range check
   [rows_in_range] (made once before sorting: an over-approximation on frames that are not well formed). *)
Theorem T1_qframe_Sort (E : Type) (col_nil : coldata) (new_error : bytes -> bytes -> E) (unknownCol : bytes -> bytes)
  (cmpf : coldata -> bool -> bool -> bool -> outcome (coldata * (nat -> nat -> cmpres)))
  (srt : list nat -> list (coldata * (nat -> nat -> cmpres)) -> outcome (list nat))
  (q : gq_QFrame nat E coldata) (f : frame) (orders : list order) :
  comparable_ok cmpf -> rep q f ->
  (forall cs, comparables f orders = Some cs ->
     srt (ix f) cs = if rows_in_range (ix f) (map fst cs) then sort_ids (less_keys (map snd cs)) (ix f) else Panic) ->
  match sort_frame f orders with
  | Ok f' => exists q', gq_QFrame_Sort col_nil new_error unknownCol cmpf srt q (map gorder_of orders) = Ok q' /\ rep q' f'
  | Fail => gq_QFrame_Sort col_nil new_error unknownCol cmpf srt q (map gorder_of orders) = Fail
  | Panic => gq_QFrame_Sort col_nil new_error unknownCol cmpf srt q (map gorder_of orders) = Panic
  end.
Proof. exact (fun Hc => gq_Sort_sim col_nil new_error unknownCol cmpf srt Hc q f orders). Qed.
Print Assumptions T1_qframe_Sort.

(* with the TRANSLATED sorter (m_sorter fuel = gs_Sort over less_keys of the Compare functions, T1_sorter_Sort) the
   premise is the range check alone; fuel: length of the index + 6 *)
Theorem T1_qframe_Sort_translated (E : Type) (col_nil : coldata) (new_error : bytes -> bytes -> E) (unknownCol : bytes -> bytes)
  (fuel : nat) (q : gq_QFrame nat E coldata) (f : frame) (orders : list order) :
  rep q f -> (length (ix f) + 6 <= fuel)%nat -> (Z.of_nat (length (ix f)) < 9223372036854775808)%Z ->
  (forall cs, comparables f orders = Some cs -> rows_in_range (ix f) (map fst cs) = true) ->
  match sort_frame f orders with
  | Ok f' => exists q', m_Sort col_nil new_error unknownCol fuel q (map gorder_of orders) = Ok q' /\ rep q' f'
  | Fail => m_Sort col_nil new_error unknownCol fuel q (map gorder_of orders) = Fail
  | Panic => m_Sort col_nil new_error unknownCol fuel q (map gorder_of orders) = Panic
  end.
Proof. exact (gq_Sort_translated col_nil new_error unknownCol fuel q f orders). Qed.
Print Assumptions T1_qframe_Sort_translated.

(* C03_frame_sort (Properties/C03.v) restated on the translated Sort + translated sorter: on a well-formed frame with
   known order columns the Go text answers a frame g — columns untouched, index a permutation, rows whole, no row
   followed by a smaller one *)
Theorem T1_qframe_Sort_C03 (E : Type) (col_nil : coldata) (new_error : bytes -> bytes -> E) (unknownCol : bytes -> bytes)
  (fuel : nat) (q : gq_QFrame nat E coldata) (f : frame) (orders : list order) :
  wf_frame f = true -> ferr f = false -> SortFrameProofs.orders_known f orders = true -> rep q f ->
  (length (ix f) + 6 <= fuel)%nat -> (Z.of_nat (length (ix f)) < 9223372036854775808)%Z ->
  exists q' g t t',
    gq_QFrame_Sort col_nil new_error unknownCol m_col_Comparable (m_sorter fuel) q (map gorder_of orders) = Ok q' /\ rep q' g /\
    cols g = cols f /\ ferr g = false /\ Permutation (ix g) (ix f) /\
    abs f = Ok t /\ abs g = Ok t' /\ tnames t' = tnames t /\ ttypes t' = ttypes t /\
    Permutation (trows t') (trows t) /\
    (forall i a, nth_error (ix g) i = Some a ->
       exists row, row_at f a = Ok row /\ nth_error (trows t') i = Some row) /\
    (forall i j a b, (i < j)%nat -> nth_error (ix g) i = Some a -> nth_error (ix g) j = Some b ->
       SortFrameProofs.row_lt f orders b a = Ok false).
Proof. exact (gq_Sort_C03 col_nil new_error unknownCol fuel q f orders). Qed.
Print Assumptions T1_qframe_Sort_C03.
(* the example frame sorted by "a" (the third column: bools) descending, then "b" with nulls last; an unknown column *)
Example T1_qframe_Sort_example :
  let orders := [([97], true, false); ([98], false, true)] in
  comparable_ok m_col_Comparable
  /\ wf_frame ex_f = true /\ SortFrameProofs.orders_known ex_f orders = true
  /\ match m_Sort (ICol []) (fun _ _ => tt) (fun b => b) 20 ex_q (map gorder_of orders) with
     | Ok q' => Ok (absq q') | Fail => Fail | Panic => Panic end = sort_frame ex_f orders
  /\ sort_frame ex_f orders = Ok (with_ix ex_f [2; 0]%nat)
  /\ match m_Sort (ICol []) (fun _ _ => tt) (fun b => b) 20 ex_q (map gorder_of [([122], false, false)]) with
     | Ok q' => Ok (absq q') | Fail => Fail | Panic => Panic end = Ok (with_err ex_f).
Proof. cbv zeta. split; [exact m_col_Comparable_ok|]. vm_compute. repeat split; reflexivity. Qed.

(* ------------------------------------------------------------------ Equals *)

(* Equals = Ops.equals (the function C09_equals_iff speaks about): index lengths, column counts, names position by
   position, Column.Equals over both indexes (ceq = the model's col_equals: the abstraction boundary); the reason
   text is some string (Sprintf is an arbitrary function of its format) *)
Theorem T1_qframe_Equals (E : Type) (sprintf : bytes -> bytes) (q q2 : gq_QFrame nat E coldata) (f g : frame) :
  rep q f -> rep q2 g ->
  match equals f g with
  | Ok r => exists reason, m_Equals sprintf q q2 = Ok (r, reason)
  | Fail => m_Equals sprintf q q2 = Fail
  | Panic => m_Equals sprintf q q2 = Panic
  end.
Proof. exact (gq_Equals_eq sprintf q q2 f g). Qed.
Print Assumptions T1_qframe_Equals.
Example T1_qframe_Equals_example :
  m_Equals (fun b => b) ex_q ex_q = Ok (true, []) /\ equals ex_f ex_f = Ok true
  /\ (match m_Equals (fun b => b) ex_q (embed tt (with_ix ex_f [2; 1]%nat)) with Ok (r, _) => Some r | _ => None end) = Some false
  /\ equals ex_f (with_ix ex_f [2; 1]%nat) = Ok false.
Proof. vm_compute. repeat split; reflexivity. Qed.

(* ------------------------------------------------------------------ Eval *)

(* The abstraction boundary of Eval: eval.NewConfig (ncf: answers the Config whose Ctx is cx) and expr.execute (exec).
   [execute_ok ut cx exec x e]: on every represented frame exec x answers what the model's execute answers for the
   expression e — a represented frame and the same result column.  Translated: the Err exit, the context taken from
   the config, execute, the Copy into dst, the Drop of the result column when it is a temporary (not dst, not a column
   of the receiver). *)
Theorem T1_qframe_Eval (E ECF EXPR : Type) (col_nil : coldata) (new_error : bytes -> bytes -> E) (propagate : bytes -> option E -> E)
  (checkname_error : bytes -> E) (unknownCol : bytes -> bytes) (ord : forall V : Type, gq_map V -> gq_map V)
  (ut : upper_table) (cx : ctx) (ncf : list ECF -> outcome (gq_EvalConfig ctx))
  (exec : EXPR -> gq_QFrame nat E coldata -> ctx -> outcome (gq_QFrame nat E coldata * bytes))
  (q : gq_QFrame nat E coldata) (f : frame) (dst : bytes) (x : EXPR) (e : expr) (ff : list ECF) :
  perm_order ord -> ncf ff = Ok (gq_mk_EvalConfig cx) -> execute_ok ut cx exec x e -> rep q f ->
  match eval ut cx f dst e with
  | Ok f' => exists q', gq_QFrame_Eval col_nil new_error propagate checkname_error unknownCol ord ncf exec q dst x ff = Ok q'
                        /\ rep q' f'
  | Fail => gq_QFrame_Eval col_nil new_error propagate checkname_error unknownCol ord ncf exec q dst x ff = Fail
  | Panic => gq_QFrame_Eval col_nil new_error propagate checkname_error unknownCol ord ncf exec q dst x ff = Panic
  end.
Proof.
  exact (fun Ho => gq_Eval_sim col_nil new_error propagate checkname_error unknownCol ord Ho ut cx ncf exec q f dst x e ff).
Qed.
Print Assumptions T1_qframe_Eval.

(* end to end on translated text: the expression is a GENERATED expression tree x (Gen/GenExprTree.v), execute is the
   GENERATED execute run on the frame the Go frame represents ([exec_translated], tied to Eval.execute by
   T1_expr_execute), the wrapper is the generated QFrame.Eval: together they are Eval.eval on abs_expr x.
   Premises: x is well formed (built through Val / Expr) and the fuel covers it *)
Theorem T1_qframe_Eval_translated (E ECF : Type) (e0 : E) (col_nil : coldata) (new_error : bytes -> bytes -> E)
  (propagate : bytes -> option E -> E) (checkname_error : bytes -> E) (unknownCol : bytes -> bytes)
  (ord : forall V : Type, gq_map V -> gq_map V) (ut : upper_table) (cx : ctx) (ncf : list ECF -> outcome (gq_EvalConfig ctx))
  (fuel : nat) (q : gq_QFrame nat E coldata) (f : frame) (dst : bytes) (x : GenExprTreeProofs.MExpression) (ff : list ECF) :
  perm_order ord -> ncf ff = Ok (gq_mk_EvalConfig cx) ->
  GenExprTreeProofs.wf_expr x = true -> (GenExprTreeProofs.fuel_need x <= fuel)%nat -> rep q f ->
  match eval ut cx f dst (GenExprTreeProofs.abs_expr x) with
  | Ok f' => exists q', gq_QFrame_Eval col_nil new_error propagate checkname_error unknownCol ord ncf (exec_translated e0 ut fuel) q dst x ff = Ok q'
                        /\ rep q' f'
  | Fail => gq_QFrame_Eval col_nil new_error propagate checkname_error unknownCol ord ncf (exec_translated e0 ut fuel) q dst x ff = Fail
  | Panic => gq_QFrame_Eval col_nil new_error propagate checkname_error unknownCol ord ncf (exec_translated e0 ut fuel) q dst x ff = Panic
  end.
Proof.
  exact (fun Ho Hn Hw Hf => gq_Eval_sim col_nil new_error propagate checkname_error unknownCol ord Ho ut cx ncf (exec_translated e0 ut fuel)
                              q f dst x (GenExprTreeProofs.abs_expr x) ff Hn (exec_translated_ok e0 ut cx fuel x Hw Hf)).
Qed.
Print Assumptions T1_qframe_Eval_translated.

(* ------------------------------------------------------------------ ColumnTypes, ColumnTypeMap *)

(* Column.DataType is the model's col_type (abstraction boundary); ColumnTypes = the ttypes of the logical table *)
Theorem T1_qframe_ColumnTypes (E : Type) (q : gq_QFrame nat E coldata) (f : frame) :
  rep q f -> gq_QFrame_ColumnTypes TInt m_col_DataType q = Ok (map (fun nc => col_type (snd nc)) (cols f)).
Proof. exact (gq_ColumnTypes_eq q f). Qed.
Print Assumptions T1_qframe_ColumnTypes.

(* ColumnTypeMap: every name resolves to the type of the column the by-name map points to (the LAST of that name) *)
Theorem T1_qframe_ColumnTypeMap (E : Type) (ord : forall V : Type, gq_map V -> gq_map V) (q : gq_QFrame nat E coldata) (f : frame) :
  perm_order ord -> rep q f ->
  exists M, gq_QFrame_ColumnTypeMap m_col_DataType ord q = Ok M /\ forall n, gq_mget M n = option_map col_type (lookup_col f n).
Proof. exact (gq_ColumnTypeMap_eq ord q f). Qed.
Print Assumptions T1_qframe_ColumnTypeMap.
Example T1_qframe_ColumnTypes_example :
  gq_QFrame_ColumnTypes TInt m_col_DataType ex_q = Ok [TInt; TString; TBool]
  /\ gq_QFrame_ColumnTypeMap m_col_DataType (fun _ m => rev m) ex_q = Ok [([98], TString); ([97], TBool)].
Proof. vm_compute. split; reflexivity. Qed.

(* Eval("k", Val(7)) on the example frame, end to end on generated text: a temporary constant column is made (through
   the generated execute and the model's apply), copied to "k" and dropped *)
Example T1_qframe_Eval_example :
  let x := @GenExprTree.ge_mk_constExpr GenExprTreeProofs.err_msg N afn (GenExprTree.ge_dyn_int 7%Z) in
  GenExprTreeProofs.wf_expr x = true /\ (GenExprTreeProofs.fuel_need x <=? N.to_nat 20000)%nat = true
  /\ match gq_QFrame_Eval (ICol []) (fun _ _ => tt) (fun _ _ => tt) (fun _ => tt) (fun b => b) (fun _ m => m)
             (fun _ : list unit => Ok (gq_mk_EvalConfig [])) (exec_translated tt [] (N.to_nat 20000)) ex_q [107] x [] with
     | Ok q' => Ok (absq q') | Fail => Fail | Panic => Panic end
     = eval [] [] ex_f [107] (GenExprTreeProofs.abs_expr x)
  /\ match eval [] [] ex_f [107] (GenExprTreeProofs.abs_expr x) with
     | Ok f' => col_names f' = [[97]; [98]; [97]; [107]] /\ lookup_col f' [107] = Some (ICol [7; 0; 7]%Z)
     | _ => False end.
Proof. vm_compute. repeat split; reflexivity. Qed.
