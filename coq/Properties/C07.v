(* Property C07 — Eval computes the expression's value per row and leaves no trace of temporaries. *)
From QF Require Import Base.Prelude Model.Frame Model.Filter Model.Ops Model.TableSpec Model.Eval Proofs.EvalProofs.
From QF Require Import Corr.FrameCorr Proofs.EvalFullTemp Proofs.EvalFull Proofs.EvalFullNames Proofs.EvalFullDecode.
Local Open Scope nat_scope.

(* operands are applied in the order written: the decoded column-constant expression records on which side the
   constant stood (this is what Expr("-", 10, col) = 10 - col rests on) *)
Theorem C07_col_const_order op c k :
  new_expr (EList [EStr op; EColName c; EConst k]) = XColConst op c k false
  /\ new_expr (EList [EStr op; EConst k; EColName c]) = XColConst op c k true.
Proof. exact (conj (decode_col_const op c k) (decode_const_col op c k)). Qed.
Print Assumptions C07_col_const_order.

Theorem C07_col_col op c1 c2 : new_expr (EList [EStr op; EColName c1; EColName c2]) = XColCol op c1 c2.
Proof. exact (decode_col_col op c1 c2). Qed.
Print Assumptions C07_col_col.

(* n-ary Expr folds from the left; zero arguments is an error *)
Theorem C07_fold_left name a b c rest :
  expr_call name (a :: b :: c :: rest) = expr_call name (EBuilt (expr_call name [a; b]) :: c :: rest).
Proof. exact (expr_call_fold name a b c rest). Qed.
Print Assumptions C07_fold_left.

Theorem C07_zero_args name : expr_call name [] = XError.
Proof. exact (expr_call_zero name). Qed.
Print Assumptions C07_zero_args.

(* malformed expressions are reported through Err *)
Theorem C07_malformed ut cx f : ferr f = false ->
  new_expr (EList []) = XError /\ (forall a, new_expr (EList [a]) = XError)
  /\ (forall x y, new_expr (EList [EColName x; y]) = XError)
  /\ execute ut cx XError f = Ok (with_err f, []).
Proof.
  intro H. exact (conj (proj1 decode_bad_len) (conj (proj2 decode_bad_len) (conj decode_bad_op (exec_error ut cx f H)))).
Qed.
Print Assumptions C07_malformed.

(* every temporary column gets a name that is not a column of the frame at that moment *)
Theorem C07_temp_fresh f prefix name : temp_col_name f prefix = Ok name -> contains f name = false.
Proof. exact (temp_fresh f prefix name). Qed.
Print Assumptions C07_temp_fresh.

Theorem C07_sticky ut cx f dst e : ferr f = true -> eval ut cx f dst e = Ok f.
Proof. exact (eval_sticky ut cx f dst e). Qed.
Print Assumptions C07_sticky.

(* ------------------------------------------------------------------ no temporary column survives: every frame *)

(* For EVERY frame (repeated column names, any physical layout), every evaluation context and every tree: a column
   of the frame that Eval returns without error is a column of the original frame or the destination. *)
Definition C07_full_statement : Prop :=
  forall ut cx f dst e g, ferr f = false -> eval ut cx f dst e = Ok g -> ferr g = false ->
    forall n, contains g n = true -> contains f n = true \/ n = dst.

Theorem C07_no_temporaries : C07_full_statement.
Proof. exact eval_names. Qed.
Print Assumptions C07_no_temporaries.

(* ------------------------------------------------------------------ the denotational statement: every tree *)

(* Premises (all computable, see C07_example_premises):
   ctx_ok cx      the functions of the context are recorded tables (F1 for one argument, F2 for two) whose results have
                  the declared type;
   wf_frame f     equal physical column lengths, index in range, valid enum ranks (the row index may be ANY list of
                  positions, repeated positions included);
   names_ok f     column names pairwise different and not empty.  Needed: after Select("A","A") + Apply(dst "A") the
                  two columns named A differ and Drop (= Select by name) replaces the first by the second;
   expr_ok f e    constants are int/float/bool/string, and every column reference names a column of f or does NOT start
                  with const-temp- / unary-temp- / colcol-temp-.  Needed: a reference to a missing column with such a
                  name is captured by a live temporary instead of being reported (see the report);
   the bound      columns + simultaneously live temporaries <= 10000 (tempColName panics beyond).
   denote cx t e (Corr/FrameCorr.v) is the specification the frameops engine applies to the implementation: constants,
   column references, unary/binary functions looked up by name and first operand type, operands in the order written.

   eval_meets says: if the tree denotes (ty, cells) then Eval returns g without error, with the same index, well formed,
   and abs g = tset_col t dst ty cells — dst replaced in its position or appended last, every other column with its
   name, position, type and values, NO other column (Eval(dst, Col(dst)) returns the frame itself; an illegal dst gives
   Err); if the tree is invalid (denote = None) Err is set — the model may fault instead only if a sub-tree is open;
   if the denotation is open (a recorded table lacks an entry) the model faults. *)
Definition C07_eval_statement : Prop :=
  forall ut cx f dst e t,
    ctx_ok cx = true -> wf_frame f = true -> ferr f = false -> names_ok f = true ->
    expr_ok f e = true -> (N.of_nat (length (cols f) + temps_needed e) <= 10000)%N ->
    abs f = Ok t ->
    eval_meets (has_open cx t e = true) f t dst e (denote cx t e) (eval ut cx f dst e).

Theorem C07_eval : C07_eval_statement.
Proof. exact eval_full. Qed.
Print Assumptions C07_eval.

(* the three cases of C07_eval spelled out *)
Theorem C07_eval_value ut cx f dst e t :
  ctx_ok cx = true -> wf_frame f = true -> ferr f = false -> names_ok f = true ->
  expr_ok f e = true -> (N.of_nat (length (cols f) + temps_needed e) <= 10000)%N ->
  abs f = Ok t -> forall ty cs,
  denote cx t e = Some (Some (ty, cs)) -> is_col_ref e dst = false -> check_name dst = true ->
  exists g, eval ut cx f dst e = Ok g /\ ferr g = false /\ ix g = ix f /\ wf_frame g = true
            /\ abs g = Ok (tset_col t dst ty cs).
Proof. exact (eval_value ut cx f dst e t). Qed.
Print Assumptions C07_eval_value.

Theorem C07_eval_error ut cx f dst e t :
  ctx_ok cx = true -> wf_frame f = true -> ferr f = false -> names_ok f = true ->
  expr_ok f e = true -> (N.of_nat (length (cols f) + temps_needed e) <= 10000)%N ->
  abs f = Ok t ->
  denote cx t e = None -> has_open cx t e = false ->
  exists g, eval ut cx f dst e = Ok g /\ ferr g = true.
Proof. exact (eval_error ut cx f dst e t). Qed.
Print Assumptions C07_eval_error.

Theorem C07_eval_bad_dst ut cx f dst e t :
  ctx_ok cx = true -> wf_frame f = true -> ferr f = false -> names_ok f = true ->
  expr_ok f e = true -> (N.of_nat (length (cols f) + temps_needed e) <= 10000)%N ->
  abs f = Ok t -> forall ty cs,
  denote cx t e = Some (Some (ty, cs)) -> is_col_ref e dst = false -> check_name dst = false ->
  exists g, eval ut cx f dst e = Ok g /\ ferr g = true.
Proof. exact (eval_bad_dst ut cx f dst e t). Qed.
Print Assumptions C07_eval_bad_dst.

(* on the same domain, whatever the model returns passes the oracle the engine applies to the implementation: an
   implementation result that equals the model's (code 1 = 0) satisfies the property (code 2 = 0) *)
Theorem C07_model_meets_oracle ut cx f dst e t g :
  ctx_ok cx = true -> wf_frame f = true -> ferr f = false -> names_ok f = true ->
  expr_ok f e = true -> (N.of_nat (length (cols f) + temps_needed e) <= 10000)%N ->
  abs f = Ok t -> eval ut cx f dst e = Ok g -> eval_oracle f cx dst e g = 0%N.
Proof. exact (model_meets_oracle ut cx f dst e t g). Qed.
Print Assumptions C07_model_meets_oracle.

(* temporaries: fresh, legal, shaped like temporaries; the search cannot run out below 10000 columns *)
Theorem C07_temp_name f prefix name :
  temp_prefix prefix -> temp_col_name f prefix = Ok name ->
  contains f name = false /\ temp_like name = true /\ check_name name = true /\ name <> [].
Proof. exact (temp_name_spec f prefix name). Qed.
Print Assumptions C07_temp_name.

Theorem C07_temp_total f prefix :
  (N.of_nat (length (cols f)) < 10000)%N -> exists name, temp_col_name f prefix = Ok name.
Proof. exact (temp_name_total f prefix). Qed.
Print Assumptions C07_temp_total.

(* ------------------------------------------------------------------ decoding, at the level of the denotation *)

(* whichever expression type newExpr picks for [op, a, b] (column-constant in either order, column-column, nested), the
   decoded tree denotes op applied to the denotations of a and b IN THE ORDER WRITTEN (decodes x: newExpr x is not the
   error expression) *)
Theorem C07_decode_binary cx t op a b :
  decodes a -> decodes b ->
  denote cx t (new_expr (EList [EStr op; a; b])) = d_binary cx op (den cx t a) (den cx t b)
  /\ decodes (EList [EStr op; a; b]).
Proof. exact (decode_binary_den cx t op a b). Qed.
Print Assumptions C07_decode_binary.

Theorem C07_decode_unary cx t op a :
  decodes a -> denote cx t (new_expr (EList [EStr op; a])) = d_unary cx op (den cx t a) /\ decodes (EList [EStr op; a]).
Proof. exact (decode_unary_den cx t op a). Qed.
Print Assumptions C07_decode_unary.

(* Expr(name, a, b, c, ...) denotes the left fold (...((a name b) name c) ...) *)
Theorem C07_expr_call_denotes cx t name a b rest :
  Forall decodes (a :: b :: rest) ->
  denote cx t (expr_call name (a :: b :: rest))
  = fold_left (fun d x => d_binary cx name d (den cx t x)) rest (d_binary cx name (den cx t a) (den cx t b)).
Proof. exact (expr_call_den cx t name a b rest). Qed.
Print Assumptions C07_expr_call_denotes.

Example C07_example_decodes :
  Forall decodes [EConst (CInt 10); EColName [65%N]; EList [EStr [45%N]; EColName [66%N]; ENil]; EStr [120%N]].
Proof. repeat constructor. Qed.

(* ------------------------------------------------------------------ worked examples (non-vacuity) *)

(* 10 - A on a frame whose index is reversed, destination shaped like a temporary *)
Example C07_example :
  let f := mkFrame [([65%N], ICol [1; 2; 3]%Z)] [2; 1; 0] false in
  let minus := F2 TInt [(CInt 10, CInt 3, CInt 7); (CInt 10, CInt 2, CInt 8); (CInt 10, CInt 1, CInt 9)]%Z in
  let cx := [((TInt, true, [45%N]), minus)] in
  eval [] cx f (bs 13 0x636f6c636f6c2d74656d702d30) (expr_call [45%N] [EConst (CInt 10); EColName [65%N]])
  = Ok (mkFrame [([65%N], ICol [1; 2; 3]%Z); (bs 13 0x636f6c636f6c2d74656d702d30, ICol [9; 8; 7]%Z)] [2; 1; 0] false).
Proof. vm_compute. reflexivity. Qed.

(* (10 - A) - B : three arguments fold from the left, constant on the left, two live temporaries, index reversed with a
   repeated position, destination = a source column (replaced in place).  All premises of C07_eval hold, the tree
   denotes a value, and the result is the tset_col table. *)
Definition ex_f := mkFrame [([65%N], ICol [1; 2; 3]%Z); ([66%N], ICol [5; 6; 7]%Z)] [2; 1; 0; 1] false.
Definition ex_minus := F2 TInt [(CInt 10, CInt 3, CInt 7); (CInt 10, CInt 2, CInt 8); (CInt 10, CInt 1, CInt 9);
                                (CInt 7, CInt 7, CInt 0); (CInt 8, CInt 6, CInt 2); (CInt 9, CInt 5, CInt 4)]%Z.
Definition ex_cx : ctx := [((TInt, true, [45%N]), ex_minus)].
Definition ex_e := expr_call [45%N] [EConst (CInt 10); EColName [65%N]; EColName [66%N]].
Definition ex_t := mkTable [[65%N]; [66%N]] [TInt; TInt]
                           [[CInt 3; CInt 7]; [CInt 2; CInt 6]; [CInt 1; CInt 5]; [CInt 2; CInt 6]]%Z.

Example C07_example_premises :
  ex_e = XExpr2 [45%N] (XColConst [45%N] [65%N] (CInt 10) true) (XCol [66%N])
  /\ ctx_ok ex_cx = true /\ wf_frame ex_f = true /\ ferr ex_f = false /\ names_ok ex_f = true
  /\ expr_ok ex_f ex_e = true /\ (N.of_nat (length (cols ex_f) + temps_needed ex_e) <= 10000)%N
  /\ abs ex_f = Ok ex_t
  /\ denote ex_cx ex_t ex_e = Some (Some (TInt, [CInt 0; CInt 2; CInt 4; CInt 2]%Z))
  /\ is_col_ref ex_e [65%N] = false /\ check_name [65%N] = true
  /\ eval [] ex_cx ex_f [65%N] ex_e
     = Ok (mkFrame [([65%N], ICol [4; 2; 0]%Z); ([66%N], ICol [5; 6; 7]%Z)] [2; 1; 0; 1] false).
Proof. vm_compute. repeat split; try reflexivity; discriminate. Qed.

(* an invalid tree: unknown column; no sub-tree is open; Err is set *)
Example C07_example_error :
  let e := expr_call [45%N] [EConst (CInt 10); EColName [65%N]; EColName [90%N]] in
  expr_ok ex_f e = true /\ denote ex_cx ex_t e = None /\ has_open ex_cx ex_t e = false
  /\ (exists g, eval [] ex_cx ex_f [67%N] e = Ok g /\ ferr g = true).
Proof. vm_compute. repeat split; try reflexivity. eexists. split; reflexivity. Qed.

(* why expr_ok is a premise: a reference to the MISSING column "colcol-temp-0" is captured by the temporary of the left
   operand — the model (as the Go code) computes (A-A)-(A-A) instead of reporting the unknown column *)
Example C07_capture :
  let f := mkFrame [([65%N], ICol [1; 2]%Z)] [0; 1] false in
  let minus := F2 TInt [(CInt 1, CInt 1, CInt 0); (CInt 2, CInt 2, CInt 0); (CInt 0, CInt 0, CInt 0)]%Z in
  let cx := [((TInt, true, [45%N]), minus)] in
  let e := XExpr2 [45%N] (XColCol [45%N] [65%N] [65%N]) (XCol (bs 13 0x636f6c636f6c2d74656d702d30)) in
  expr_ok f e = false
  /\ (match abs f with Ok t => denote cx t e | _ => Some None end) = None
  /\ eval [] cx f [66%N] e = Ok (mkFrame [([65%N], ICol [1; 2]%Z); ([66%N], ICol [0; 0]%Z)] [0; 1] false).
Proof. vm_compute. repeat split; reflexivity. Qed.

(* why names_ok is a premise: with two columns named A that differ, dropping the temporary (Select by name) replaces
   the first A by the second *)
Example C07_repeated_names :
  let f := mkFrame [([65%N], ICol [1; 2]%Z); ([65%N], ICol [7; 8]%Z)] [0; 1] false in
  names_ok f = false
  /\ eval [] [] f [66%N] (XConst (CInt 5))
     = Ok (mkFrame [([65%N], ICol [7; 8]%Z); ([65%N], ICol [7; 8]%Z); ([66%N], ICol [5; 5]%Z)] [0; 1] false).
Proof. vm_compute. split; reflexivity. Qed.

(* an illegal destination name ("$x") with a valid tree: Err *)
Example C07_example_bad_dst :
  check_name [36%N; 120%N] = false /\ is_col_ref ex_e [36%N; 120%N] = false
  /\ (exists g, eval [] ex_cx ex_f [36%N; 120%N] ex_e = Ok g /\ ferr g = true).
Proof. vm_compute. repeat split. eexists. split; reflexivity. Qed.

(* Eval(dst, Col(dst)) returns the frame itself *)
Example C07_example_self : is_col_ref (XCol [66%N]) [66%N] = true /\ eval [] ex_cx ex_f [66%N] (XCol [66%N]) = Ok ex_f.
Proof. vm_compute. split; reflexivity. Qed.

(* the first temporary of each kind on a frame without temporaries; premises of C07_temp_name / C07_temp_total *)
Example C07_example_temp :
  temp_prefix p_colcol /\ (N.of_nat (length (cols ex_f)) < 10000)%N
  /\ temp_col_name ex_f p_colcol = Ok (bs 13 0x636f6c636f6c2d74656d702d30)
  /\ temp_col_name ex_f p_const = Ok (bs 12 0x636f6e73742d74656d702d30).
Proof. split; [right; right; reflexivity|]. vm_compute. repeat split; reflexivity. Qed.

(* premises of C07_no_temporaries on a frame OUTSIDE the domain of C07_eval (repeated names): still no temporary *)
Example C07_example_no_temporaries :
  let f := mkFrame [([65%N], ICol [1; 2]%Z); ([65%N], ICol [7; 8]%Z)] [0; 1] false in
  exists g, ferr f = false /\ eval [] [] f [66%N] (XConst (CInt 5)) = Ok g /\ ferr g = false
            /\ col_names g = [[65%N]; [65%N]; [66%N]].
Proof. eexists. vm_compute. repeat split; reflexivity. Qed.
