(* Property C07 — Eval computes the expression's value per row and leaves no trace of temporaries. *)
From QF Require Import Base.Prelude Model.Frame Model.Filter Model.Ops Model.Eval Proofs.EvalProofs.
Local Open Scope nat_scope.

(* operands are applied in the order written: the decoded column-constant expression records on which side the
   constant stood (this is what Expr("-", 10, col) = 10 - col rests on) *)
Theorem C07_col_const_order op c k :
  new_expr (EList [EStr op; EColName c; EConst k]) = XColConst op c k false
  /\ new_expr (EList [EStr op; EConst k; EColName c]) = XColConst op c k true.
Proof. exact (conj (decode_col_const op c k) (decode_const_col op c k)). Qed.
Print Assumptions C07_col_const_order.

Theorem C07_col_col op c1 c2 : new_expr (EList [EStr op; EColName c1; EColName c2]) = XColCol op c1 c2.
Proof. exact (decode_col_col op c1 c2). Qed.
Print Assumptions C07_col_col.

(* n-ary Expr folds from the left; zero arguments is an error *)
Theorem C07_fold_left name a b c rest :
  expr_call name (a :: b :: c :: rest) = expr_call name (EBuilt (expr_call name [a; b]) :: c :: rest).
Proof. exact (expr_call_fold name a b c rest). Qed.
Print Assumptions C07_fold_left.

Theorem C07_zero_args name : expr_call name [] = XError.
Proof. exact (expr_call_zero name). Qed.
Print Assumptions C07_zero_args.

(* malformed expressions are reported through Err *)
Theorem C07_malformed ut cx f : ferr f = false ->
  new_expr (EList []) = XError /\ (forall a, new_expr (EList [a]) = XError)
  /\ (forall x y, new_expr (EList [EColName x; y]) = XError)
  /\ execute ut cx XError f = Ok (with_err f, []).
Proof.
  intro H. exact (conj (proj1 decode_bad_len) (conj (proj2 decode_bad_len) (conj decode_bad_op (exec_error ut cx f H)))).
Qed.
Print Assumptions C07_malformed.

(* every temporary column gets a name that is not a column of the frame at that moment *)
Theorem C07_temp_fresh f prefix name : temp_col_name f prefix = Ok name -> contains f name = false.
Proof. exact (temp_fresh f prefix name). Qed.
Print Assumptions C07_temp_fresh.

Theorem C07_sticky ut cx f dst e : ferr f = true -> eval ut cx f dst e = Ok f.
Proof. exact (eval_sticky ut cx f dst e). Qed.
Print Assumptions C07_sticky.

(* the full statement — model = denotation for every well typed tree, no temporary survives, nothing else moves —
   is decided per case by the frameops engine (Corr/FrameCorr.v: eval_oracle = tset_col of the denoted column);
   it is not yet proved for all trees *)
Definition C07_full_statement : Prop :=
  forall ut cx f dst e g, ferr f = false -> eval ut cx f dst e = Ok g -> ferr g = false ->
    forall n, contains g n = true -> contains f n = true \/ n = dst.

(* Non-vacuity / worked example: 10 - A on a frame whose index is reversed, destination shaped like a temporary *)
Example C07_example :
  let f := mkFrame [([65%N], ICol [1; 2; 3]%Z)] [2; 1; 0] false in
  let minus := F2 TInt [(CInt 10, CInt 3, CInt 7); (CInt 10, CInt 2, CInt 8); (CInt 10, CInt 1, CInt 9)]%Z in
  let cx := [((TInt, true, [45%N]), minus)] in
  eval [] cx f (bs 13 0x636f6c636f6c2d74656d702d30) (expr_call [45%N] [EConst (CInt 10); EColName [65%N]])
  = Ok (mkFrame [([65%N], ICol [1; 2; 3]%Z); (bs 13 0x636f6c636f6c2d74656d702d30, ICol [9; 8; 7]%Z)] [2; 1; 0] false).
Proof. vm_compute. reflexivity. Qed.
