(* Property C08 — New reproduces its input or rejects it; Select/Drop/Slice/Copy project exactly. *)
From QF Require Import Base.Prelude Model.Bits Model.Frame Model.Filter Model.Ops Model.TableSpec Proofs.BitsProofs Proofs.OpsProofs.
Local Open Scope N_scope.

(* strings.Pointer packing (every string cell of a frame is addressed through it): the accessors read back
   exactly what NewPointer packed, for all offsets < 2^35 and lengths < 2^28; constants regenerated from Go. *)
Theorem C08_pointer_roundtrip (o l : N) (isnull : bool) :
  o < 2^35 -> l < 2^28 ->
  ptr_offset (new_pointer o l isnull) = o /\
  ptr_len (new_pointer o l isnull) = l /\
  ptr_isnull (new_pointer o l isnull) = isnull.
Proof. exact (pointer_roundtrip o l isnull). Qed.
Print Assumptions C08_pointer_roundtrip.

(* Slice(a, b) = exactly rows a .. b-1 of the logical table, all columns as they were, for every row index *)
Theorem C08_slice f a b t :
  ferr f = false -> abs f = Ok t ->
  (0 <= a)%Z -> (a <= b)%Z -> (b <= Z.of_nat (length (ix f)))%Z ->
  ferr (slice f a b) = false /\ abs (slice f a b) = Ok (tslice t (Z.to_nat a) (Z.to_nat b)).
Proof. exact (slice_abs f a b t). Qed.
Print Assumptions C08_slice.

(* ... and every other request is rejected through Err *)
Theorem C08_slice_rejects f a b :
  ferr f = false -> (a < 0 \/ b < a \/ Z.of_nat (length (ix f)) < b)%Z -> ferr (slice f a b) = true.
Proof. exact (slice_rejects f a b). Qed.
Print Assumptions C08_slice_rejects.

(* Copy(dst, src) = setColumn(dst, column of src): replaced in position or appended last, everything else
   (index, Err, what other names resolve to) unchanged; an unknown source is rejected. *)
Theorem C08_copy f dst src c :
  ferr f = false -> lookup_col f src = Some c -> bytes_eqb dst src = false -> check_name dst = true ->
  let g := copy f dst src in
  ix g = ix f /\ ferr g = false /\ lookup_col g dst = Some c
  /\ (forall m, bytes_eqb dst m = false -> lookup g m = lookup f m).
Proof. exact (copy_spec f dst src c). Qed.
Print Assumptions C08_copy.

Theorem C08_copy_rejects f dst src :
  ferr f = false -> lookup_col f src = None -> ferr (copy f dst src) = true.
Proof. exact (copy_rejects f dst src). Qed.
Print Assumptions C08_copy_rejects.

(* Select: unknown names are rejected; otherwise exactly the requested columns in the requested order,
   each being the column its name resolves to, over the unchanged row index. *)
Theorem C08_select f names :
  ferr f = false -> names <> [] ->
  (forallb (contains f) names = false -> ferr (select f names) = true)
  /\ (forallb (contains f) names = true ->
      ferr (select f names) = false /\ ix (select f names) = ix f
      /\ col_names (select f names) = names
      /\ Forall2 (fun n nc => fst nc = n /\ lookup_col f n = Some (snd nc)) names (cols (select f names))).
Proof. exact (select_spec f names). Qed.
Print Assumptions C08_select.

(* Non-vacuity *)
Example C08_slice_example :
  let f := mkFrame [([65%N], ICol [10; 20; 30; 40]%Z); ([66%N], SCol [None; Some []; Some [97]; None])] [3; 1; 0; 2]%nat false in
  abs (slice f 1 3) = Ok (mkTable [[65%N]; [66%N]] [TInt; TString] [[CInt 20; CStr (Some [])]; [CInt 10; CStr None]]%Z).
Proof. vm_compute. reflexivity. Qed.
