(* Property C08 — New reproduces its input or rejects it; Select/Drop/Slice/Copy project exactly. *)
From QF Require Import Base.Prelude Model.Bits Proofs.BitsProofs.
Local Open Scope N_scope.

Theorem C08_pointer_roundtrip (o l : N) (isnull : bool) :
  o < 2^35 -> l < 2^28 ->
  ptr_offset (new_pointer o l isnull) = o /\
  ptr_len (new_pointer o l isnull) = l /\
  ptr_isnull (new_pointer o l isnull) = isnull.
Proof. exact (pointer_roundtrip o l isnull). Qed.
Print Assumptions C08_pointer_roundtrip.
