(* Property C08 — New reproduces its input or rejects it; Select/Drop/Slice/Copy project exactly. *)
From QF Require Import Base.Prelude Model.Bits Model.Frame Model.Filter Model.Ops Model.TableSpec Proofs.BitsProofs Proofs.OpsProofs.
From QF Require Import Proofs.OpsProofs2 Proofs.NewProofs.
From Coq Require Import Sorted.
Local Open Scope N_scope.

(* strings.Pointer packing (every string cell of a frame is addressed through it): the accessors read back
   exactly what NewPointer packed, for all offsets < 2^35 and lengths < 2^28; constants regenerated from Go. *)
Theorem C08_pointer_roundtrip (o l : N) (isnull : bool) :
  o < 2^35 -> l < 2^28 ->
  ptr_offset (new_pointer o l isnull) = o /\
  ptr_len (new_pointer o l isnull) = l /\
  ptr_isnull (new_pointer o l isnull) = isnull.
Proof. exact (pointer_roundtrip o l isnull). Qed.
Print Assumptions C08_pointer_roundtrip.

(* Slice(a, b) = exactly rows a .. b-1 of the logical table, all columns as they were, for every row index *)
Theorem C08_slice f a b t :
  ferr f = false -> abs f = Ok t ->
  (0 <= a)%Z -> (a <= b)%Z -> (b <= Z.of_nat (length (ix f)))%Z ->
  ferr (slice f a b) = false /\ abs (slice f a b) = Ok (tslice t (Z.to_nat a) (Z.to_nat b)).
Proof. exact (slice_abs f a b t). Qed.
Print Assumptions C08_slice.

(* ... and every other request is rejected through Err *)
Theorem C08_slice_rejects f a b :
  ferr f = false -> (a < 0 \/ b < a \/ Z.of_nat (length (ix f)) < b)%Z -> ferr (slice f a b) = true.
Proof. exact (slice_rejects f a b). Qed.
Print Assumptions C08_slice_rejects.

(* Copy(dst, src) = setColumn(dst, column of src): replaced in position or appended last, everything else
   (index, Err, what other names resolve to) unchanged; an unknown source is rejected. *)
Theorem C08_copy f dst src c :
  ferr f = false -> lookup_col f src = Some c -> bytes_eqb dst src = false -> check_name dst = true ->
  let g := copy f dst src in
  ix g = ix f /\ ferr g = false /\ lookup_col g dst = Some c
  /\ (forall m, bytes_eqb dst m = false -> lookup g m = lookup f m).
Proof. exact (copy_spec f dst src c). Qed.
Print Assumptions C08_copy.

Theorem C08_copy_rejects f dst src :
  ferr f = false -> lookup_col f src = None -> ferr (copy f dst src) = true.
Proof. exact (copy_rejects f dst src). Qed.
Print Assumptions C08_copy_rejects.

(* Select: unknown names are rejected; otherwise exactly the requested columns in the requested order,
   each being the column its name resolves to, over the unchanged row index. *)
Theorem C08_select f names :
  ferr f = false -> names <> [] ->
  (forallb (contains f) names = false -> ferr (select f names) = true)
  /\ (forallb (contains f) names = true ->
      ferr (select f names) = false /\ ix (select f names) = ix f
      /\ col_names (select f names) = names
      /\ Forall2 (fun n nc => fst nc = n /\ lookup_col f n = Some (snd nc)) names (cols (select f names))).
Proof. exact (select_spec f names). Qed.
Print Assumptions C08_select.

(* Non-vacuity *)
Example C08_slice_example :
  let f := mkFrame [([65%N], ICol [10; 20; 30; 40]%Z); ([66%N], SCol [None; Some []; Some [97]; None])] [3; 1; 0; 2]%nat false in
  abs (slice f 1 3) = Ok (mkTable [[65%N]; [66%N]] [TInt; TString] [[CInt 20; CStr (Some [])]; [CInt 10; CStr None]]%Z).
Proof. vm_compute. reflexivity. Qed.

(* ================================================================== wave 2 *)
Local Open Scope nat_scope.

(* ------------------------------------------------------------------ Drop *)

(* Drop(names) on a frame with distinct column names returns exactly the physical columns whose name is not
   listed, in their original order, over the unchanged row index; when nothing is left, the frame without columns
   and rows; Drop() is the frame itself. *)
Theorem C08_drop f names :
  ferr f = false -> NoDup (col_names f) ->
  let rest := filter (fun nc => negb (existsb (bytes_eqb (fst nc)) names)) (cols f) in
  drop f names = match names, rest with
                 | [], _ => f
                 | _, [] => mkFrame [] [] false
                 | _, _ => mkFrame rest (ix f) false
                 end.
Proof. exact (drop_spec f names). Qed.
Print Assumptions C08_drop.

(* Drop never sets Err: a listed name that is not a column is IGNORED (the statement's "unknown requests are
   rejected" does not hold for Drop; this is the behaviour of the implementation, see the report). *)
Theorem C08_drop_never_rejects f names : ferr f = false -> ferr (drop f names) = false.
Proof. exact (drop_no_err f names). Qed.
Print Assumptions C08_drop_never_rejects.

Example C08_drop_example :
  let f := mkFrame [([65%N], ICol [10; 20; 30]%Z); ([66%N], BCol [true; false; true]); ([67%N], ICol [1; 2; 3]%Z)] [2; 0] false in
  NoDup (col_names f)
  /\ drop f [[66%N]; [90%N]] = mkFrame [([65%N], ICol [10; 20; 30]%Z); ([67%N], ICol [1; 2; 3]%Z)] [2; 0] false
  /\ drop f [[67%N]; [65%N]; [66%N]] = mkFrame [] [] false.
Proof.
  cbv zeta. split; [|split; vm_compute; reflexivity].
  simpl. repeat constructor; simpl; intuition discriminate.
Qed.

(* ------------------------------------------------------------------ New *)

(* createColumn: whatever it returns holds exactly the supplied values (null pointers as null, every byte of every
   string, constants repeated count times), is an enum column only for string data with an Enums entry, and
   presupposes a supported type and a count >= 0. *)
Theorem C08_create_column_holds d en c :
  create_column d en = Ok c ->
  data_ok d = true /\ col_wf c = true
  /\ (is_ecol c = true -> is_string_data d = true /\ en <> None)
  /\ exists cells, data_cells d (is_ecol c) = Some (col_type c, cells) /\ holds c cells.
Proof. exact (create_column_holds d en c). Qed.
Print Assumptions C08_create_column_holds.

(* ... and without an Enums entry it succeeds EXACTLY for the supported types with a non-negative count
   (with an entry the enum factory may also refuse: undeclared value, more than 255 values — property C17) *)
Theorem C08_create_column_plain d :
  exists r, create_column d None = r /\ (data_ok d = true <-> exists c, r = Ok c) /\ r <> Panic.
Proof. exact (create_column_plain d). Qed.
Print Assumptions C08_create_column_plain.

(* New(data, ColumnOrder(order), Enums(enums)), for EVERY input (the effective column order is the given one, or
   the sorted keys):

   new_valid (Proofs/NewProofs.v, executable) =
        every key is a legal name
     && the order has as many names as there are keys && every name of the order is a key
        && no name occurs twice in the order
        (C08_new_valid_order_permutation: together = the order is a permutation of the keys)
     && createColumn succeeds for every column (supported type, count >= 0, enum factory accepts the values)
        and every column has the length of the FIRST column in order (a first column of length 0 followed by
        longer ones is invalid)
     && every Enums entry names a column of the order that holds string data.

   VALID: New returns a frame without Err that is well formed, has the row index 0..n-1 (n = length of the first
   column), and denotes the table whose column names are the order and whose column n holds exactly the cells
   of data[n] — as enum column iff n is string data declared in Enums. *)
Theorem C08_new_ok data order enums :
  new_valid data order enums = true ->
  exists f t, new_frame data order enums = Ok f /\ ferr f = false /\ wf_frame f = true
    /\ ix f = seq 0 (new_len data order enums) /\ abs f = Ok t
    /\ tnames t = new_order data order /\ length (trows t) = new_len data order enums
    /\ forall n, In n (new_order data order) ->
         exists d tc, assocb n data = Some d /\ data_ok d = true
           /\ data_cells d (has_enum data enums n) = Some tc /\ tcolumn t n = Some tc
           /\ length (snd tc) = new_len data order enums.
Proof. exact (new_frame_table data order enums). Qed.
Print Assumptions C08_new_ok.

(* INVALID: Err (the frame without columns), never a frame, never a panic. Together with C08_new_ok:
   New returns a frame without Err IF AND ONLY IF the input is valid. *)
Theorem C08_new_rejects data order enums :
  new_valid data order enums = false ->
  new_frame data order enums = Ok (mkFrame [] [] true).
Proof. exact (new_frame_rejects data order enums). Qed.
Print Assumptions C08_new_rejects.

Theorem C08_new_iff data order enums :
  new_valid data order enums = true <-> exists f, new_frame data order enums = Ok f /\ ferr f = false.
Proof. exact (new_frame_iff data order enums). Qed.
Print Assumptions C08_new_iff.

(* a ColumnOrder that names a column twice is rejected (before the repair such an order with as many entries as
   there are keys passed both checks: the repeated column appeared twice, another key was silently left out) *)
Theorem C08_new_repeated_order_rejected data order enums :
  ~ NoDup (new_order data order) -> new_frame data order enums = Ok (mkFrame [] [] true).
Proof. exact (new_frame_repeated_order_rejected data order enums). Qed.
Print Assumptions C08_new_repeated_order_rejected.

(* a valid input's order is a permutation of the keys *)
Theorem C08_new_valid_order_permutation data order enums :
  new_valid data order enums = true -> Permutation (new_order data order) (map fst data).
Proof. exact (new_valid_order_permutation data order enums). Qed.
Print Assumptions C08_new_valid_order_permutation.

(* without ColumnOrder: byte-wise alphabetical order, every key exactly once (the keys of a Go map are distinct) *)
Theorem C08_default_order_sorted (l : list bytes) : Sorted names_le (sort_names l) /\ Permutation (sort_names l) l.
Proof. exact (sort_names_sorted l). Qed.
Print Assumptions C08_default_order_sorted.

Theorem C08_default_order_nodup (data : list (bytes * newdata)) : NoDup (map fst data) -> NoDup (new_order data []).
Proof. exact (new_order_default_nodup data). Qed.
Print Assumptions C08_default_order_nodup.

Theorem C08_new_order_permutation (data : list (bytes * newdata)) order :
  NoDup (new_order data order) ->
  length (new_order data order) = length data ->
  forallb (fun n => match assocb n data with Some _ => true | None => false end) (new_order data order) = true ->
  Permutation (new_order data order) (map fst data).
Proof. exact (new_order_permutation data order). Qed.
Print Assumptions C08_new_order_permutation.

(* Non-vacuity: a null pointer, an empty string, a constant and an enum column declared without values, default
   order; and the inputs that must be rejected — among them the empty FIRST column followed by a longer one, in
   both orders. *)
Definition ex_new_data : list (bytes * newdata) :=
  [([66%N], DStrPtrs [None; Some []; Some [97%N]]); ([65%N], DConstInt 7 3); ([69%N], DStrings [[120%N]; [121%N]; [120%N]])].
Definition ex_new_bad : list (bytes * newdata) := [([65%N], DInts []); ([66%N], DInts [1; 2; 3]%Z)].

Example C08_new_premises_satisfiable :
  NoDup (new_order ex_new_data []) /\ new_valid ex_new_data [] [([69%N], [])] = true
  /\ new_frame ex_new_data [] [([69%N], [])]
     = Ok (mkFrame [([65%N], ICol [7; 7; 7]%Z); ([66%N], SCol [None; Some []; Some [97%N]]);
                    ([69%N], ECol [0; 1; 0]%N [[120%N]; [121%N]] false)] [0; 1; 2] false).
Proof.
  split; [|split; vm_compute; reflexivity].
  apply C08_default_order_nodup. simpl. repeat constructor; simpl; intuition discriminate.
Qed.

Example C08_new_invalid_examples :
  new_valid ex_new_bad [] [] = false                              (* first column empty, second longer *)
  /\ new_valid ex_new_bad [[66%N]; [65%N]] [] = false             (* the same columns in the other order *)
  /\ new_valid ex_new_data [] [([70%N], [])] = false              (* Enums entry for an unknown column *)
  /\ new_valid ex_new_data [] [([65%N], [])] = false              (* Enums entry for a non-string column *)
  /\ new_valid ex_new_data [[66%N]; [65%N]] [] = false            (* ColumnOrder too short *)
  /\ new_valid ex_new_data [[66%N]; [65%N]; [70%N]] [] = false    (* ColumnOrder with an unknown name *)
  /\ new_valid [([36%N; 65%N], DInts [])] [] [] = false           (* illegal name *)
  /\ new_valid [([65%N], DConstInt 1 (-1))] [] [] = false         (* negative count *)
  /\ new_valid [([65%N], DOther)] [] [] = false.                  (* unsupported data type *)
Proof. repeat split; vm_compute; reflexivity. Qed.

(* the premise of C08_new_repeated_order_rejected on a concrete input: as many entries as there are keys, every
   entry a key, one of them twice *)
Example C08_new_repeated_order_example :
  ~ NoDup (new_order [([65%N], DInts [1]%Z); ([66%N], DInts [1; 2; 3]%Z)] [[65%N]; [65%N]])
  /\ new_valid [([65%N], DInts [1]%Z); ([66%N], DInts [1; 2; 3]%Z)] [[65%N]; [65%N]] [] = false
  /\ new_frame [([65%N], DInts [1]%Z); ([66%N], DInts [1; 2; 3]%Z)] [[65%N]; [65%N]] []
     = Ok (mkFrame [] [] true).
Proof.
  split; [|split; vm_compute; reflexivity].
  simpl. intro H. inversion H as [|? ? Hn _]; subst. apply Hn. left. reflexivity.
Qed.
