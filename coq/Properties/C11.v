(* Property C11 — a frame may be used by any number of goroutines at once.
   Level: proof on the heap-level model (interleaving semantics over one shared store, one action node
   per step, no synchronisation) + race-detector exploration in Go (engine "conc"); the premise of the
   theorem (every operation writes only what it allocated itself) is C01's per-operation obligation,
   tied to the code by the engine "share".  PARTIAL: the Go memory model, the standard library's
   internals and the runtime are outside the model (DESIGN 9).  Statements only. *)
From QF Require Import Base.Prelude Model.Heap Model.HeapOps Model.Conc
     Proofs.HeapProofs Proofs.HeapOpsProofs Proofs.ConcProofs Proofs.HeapAggregate Proofs.HeapRefine.

(* Generic in the programs: if every thread is solo-safe from the common store then, under EVERY
   schedule (any interleaving of the action nodes, complete or not), each thread that has finished
   returned exactly the value it returns when run alone, the trace has no race, no pre-existing
   location changed; and for a complete schedule the list of results is the list of solo results. *)
Theorem C11_schedule_independent env A (s0 : store) (progs : list (prog A)) :
  (forall i p, nth_error progs i = Some p -> run_tr env (S i) p 0 s0 <> None) ->
  forall sched : list nat,
    let c := run_conc env progs sched s0 in
    (forall i p th a, nth_error progs i = Some p -> nth_error (c_pool c) i = Some th ->
                      ts_code th = Ret a -> a = solo_value env A s0 i p) /\
    no_race (c_trace c) /\
    (forall l, in_dom s0 l = true -> lookup (c_store c) l = lookup s0 l) /\
    (complete c = true -> results c = solo_results env progs s0).
Proof. exact (C11_generic env A s0 progs). Qed.
Print Assumptions C11_schedule_independent.

(* Instantiated for multisets of qframe operations on valid references into a closed store. *)
Theorem C11_operations env (s0 : store) (jobs : list job) :
  closed_store s0 ->
  (forall t k, 1 <= t -> lookup s0 (t, k) = None) ->
  Forall (job_ok s0) jobs ->
  forall sched : list nat,
    let progs := map job_prog jobs in
    let c := run_conc env progs sched s0 in
    (forall i p th a, nth_error progs i = Some p -> nth_error (c_pool c) i = Some th ->
                      ts_code th = Ret a -> a = solo_value env _ s0 i p) /\
    no_race (c_trace c) /\
    (forall l, in_dom s0 l = true -> lookup (c_store c) l = lookup s0 l) /\
    (complete c = true -> results c = solo_results env progs s0).
Proof. exact (C11_ops env s0 jobs). Qed.
Print Assumptions C11_operations.

(* the per-operation premise is discharged for every operation except Aggregate (see C01.v) *)
Theorem C11_ops_safe op : lop_proved op = true -> lop_safe op.
Proof. exact (lop_proved_safe op). Qed.
Print Assumptions C11_ops_safe.

(* (wave 2) ... and for Aggregate too: every operation of the quantifier is safe, so that the theorem for
   multisets of operations needs no per-operation premise any more: for every closed store, every
   multiset of (operation, receiver, argument) over valid references, every schedule. *)
Theorem C11_all_ops_safe op : lop_safe op.
Proof. exact (lop_all_safe op). Qed.
Print Assumptions C11_all_ops_safe.

Definition C11_model_full_statement : Prop :=
  forall env (s0 : store) (jobs : list job),
  closed_store s0 ->
  (forall t k, 1 <= t -> lookup s0 (t, k) = None) ->
  Forall (job_ref_ok s0) jobs ->
  forall sched : list nat,
    let progs := map job_prog jobs in
    let c := run_conc env progs sched s0 in
    (forall i p th a, nth_error progs i = Some p -> nth_error (c_pool c) i = Some th ->
                      ts_code th = Ret a -> a = solo_value env _ s0 i p) /\
    no_race (c_trace c) /\
    (forall l, in_dom s0 l = true -> lookup (c_store c) l = lookup s0 l) /\
    (complete c = true -> results c = solo_results env progs s0).

Theorem C11_operations_all : C11_model_full_statement.
Proof. exact C11_ops_all. Qed.
Print Assumptions C11_operations_all.

(* ... and at L0: under every schedule of every multiset of operations every well-formed frame reference
   of the initial store reads as the same L0 frame in the shared store at every moment of the run
   (abs1 / ref_ok: Properties/C01.v, section 6). *)
Theorem C11_abs1_stable env dec (s0 : store) (jobs : list job) :
  closed_store s0 ->
  (forall t k, 1 <= t -> lookup s0 (t, k) = None) ->
  Forall (job_ref_ok s0) jobs ->
  forall (sched : list nat) q,
    ref_ok dec s0 q ->
    let c := run_conc env (map job_prog jobs) sched s0 in
    ref_ok dec (c_store c) q /\ abs1 dec (c_store c) q = abs1 dec s0 q.
Proof. exact (conc_abs_stable env dec s0 jobs). Qed.
Print Assumptions C11_abs1_stable.

(* the premises hold for the example jobs (incl. an Aggregate on a grouper whose group shares the
   frame's index) *)
Example C11_all_premises_hold :
  closed_store AggExamples.st_g0 /\
  (forall t k, 1 <= t -> lookup AggExamples.st_g0 (t, k) = None) /\
  Forall (job_ref_ok AggExamples.st_g0) AggExamples.jobs1.
Proof. exact AggExamples.jobs1_premises. Qed.
Example C11_aggregate_example :
  complete AggExamples.conc1 = true /\ has_race (c_trace AggExamples.conc1) = false /\
  results AggExamples.conc1 = solo_results HeapExamples.env0 (map job_prog AggExamples.jobs1) AggExamples.st_g0.
Proof. exact AggExamples.conc1_example. Qed.

(* Non-vacuity: Sort, Filter, Apply and Sort started at once on a frame and on its slice (which shares
   the index array with spare capacity): the round-robin schedule is complete, race free (the executable
   checker agrees with the theorem) and returns the solo results; the wrong Sort (no index copy) races. *)
Example C11_example :
  complete HeapExamples.conc0 = true /\ has_race (c_trace HeapExamples.conc0) = false /\
  (100 <? length (c_trace HeapExamples.conc0)) = true /\
  results HeapExamples.conc0 = solo_results HeapExamples.env0 (map job_prog HeapExamples.jobs0) HeapExamples.st0.
Proof. exact HeapExamples.conc_example. Qed.
Example C11_wrong_sort_races :
  complete HeapExamples.conc_bad = true /\ has_race (c_trace HeapExamples.conc_bad) = true.
Proof. exact HeapExamples.conc_bad_example. Qed.
Print Assumptions C11_example.
