(* Property C19 — ToSQL writes each row as one INSERT; ReadSQL rebuilds the result set.
   Model: Model/Sql.v; specification functions (also the oracle of engine "sql"): Corr/IOCorr.v
   (spec_insert, spec_rows, spec_column, spec_read, spec_frame). *)
From Coq Require Import String.
From QF Require Import Base.Prelude Model.Sql Model.IOFault Corr.IOCorr Proofs.SqlProofs.
Local Open Scope N_scope.

(* ---- statement text: table and n identifiers wrapped in the escape character, n placeholders
   ("?" or $1..$n with decimal numbering), for every name list and dialect.  spec_insert is
     "INSERT INTO " ++ wrap table ++ " (" ++ join "," (map wrap names) ++ ") VALUES ("
                    ++ join "," (map mark [1..n]) ++ ");"                                  *)
Theorem C19_insert_text_shape (names : list bytes) (conf : sql_config) :
  insert_text names conf = spec_insert names (q_table conf) (q_escape conf) (q_incr conf).
Proof. exact (insert_text_spec names conf). Qed.
Print Assumptions C19_insert_text_shape.

(* the numbering of the $i placeholders is decimal: the digits written for i denote i *)
Theorem C19_placeholder_numbering (n : N) :
  dec_value 0 (itoa n) = n /\ Forall is_digit (itoa n) /\ itoa n <> [].
Proof. exact (itoa_spec n). Qed.
Print Assumptions C19_placeholder_numbering.

Example C19_insert_text_example :
  spec_insert [str "a"; str "b c"] (str "t") 34 true
  = str "INSERT INTO ""t"" (""a"",""b c"") VALUES ($1,$2);"
  /\ spec_insert [str "a"; str "b"; str "c"] (str "t") 0 false = str "INSERT INTO t (a,b,c) VALUES (?,?,?);".
Proof. split; vm_compute; reflexivity. Qed.

(* ---- ToSQL: the statements that reach the driver are, in frame order, one INSERT per row of the frame
   (spec_rows f: the cells of all columns at index[0], index[1], ...; null string / enum -> NULL) *)
Theorem C19_statements (f : frame) (conf : sql_config) (rows : list (list dval)) :
  spec_rows f = Some rows ->
  to_sql f conf (fun _ => true)
  = (map (fun r => (insert_text (map fst (fcols f)) conf, r)) rows, SOk).
Proof. exact (to_sql_statements f conf rows). Qed.
Print Assumptions C19_statements.

(* the premise holds for every frame the library can build (index within the columns, enum ranks
   within the value table), with one row of arguments per index position *)
Theorem C19_statements_premise (f : frame) :
  frame_ok f -> exists rows, spec_rows f = Some rows /\ length rows = length (findex f).
Proof. exact (frame_ok_rows_length f). Qed.
Print Assumptions C19_statements_premise.

Definition example_frame : frame :=
  mkFrame [(str "i", CInt [10; 20; 30]%Z); (str "s", CStr [Some (str "x"); None; Some (str "z")]);
           (str "e", CEnum [1; 255; 0] [str "u"; str "v"])] [2; 0; 1]%nat.

Example C19_statements_example :
  spec_rows example_frame
  = Some [[DInt 30; DStr (str "z"); DStr (str "u")]; [DInt 10; DStr (str "x"); DStr (str "v")];
          [DInt 20; DNull; DNull]].
Proof. vm_compute. reflexivity. Qed.

(* ---- ReadSQL: for every result set inside the property's quantifier (spec_read defined: distinct,
   admissible column names, at least one row, every column of one SQL type with NULLs only in float and
   text columns and at least one non-NULL value), read without coercion and precision: the frame has the
   result set's column names in order, int64 -> int, float64, bool, text / []byte -> string, NULL -> null
   string / NaN, leading NULLs back-filled. *)
Theorem C19_read fixed pf (conf : sql_config) (names : list bytes) (rows : list (list dval)) cols :
  q_coerce conf = None -> (q_precision conf <= 0)%Z ->
  spec_read names rows = Some cols ->
  read_sql fixed pf conf (mkRS names rows) no_faults = Ok cols.
Proof. exact (read_sql_spec fixed pf conf names rows cols). Qed.
Print Assumptions C19_read.

Example C19_read_example :
  spec_read [str "f"; str "s"; str "i"]
            [[DNull; DNull; DInt 1]; [DFloat 0x3FF8000000000000; DBytes (str "y"); DInt 2]; [DNull; DStr (str "z"); DInt 3]]
  = Some [(str "f", CFloat [nan_bits; 0x3FF8000000000000; nan_bits]);
          (str "s", CStr [None; Some (str "y"); Some (str "z")]);
          (str "i", CInt [1; 2; 3]%Z)].
Proof. vm_compute. reflexivity. Qed.

(* a NULL arriving in a column already known to hold int or bool values is rejected (ReadSQL then
   returns Err through rows.Scan) *)
Theorem C19_null_in_int_or_bool_rejected fixed pf (c : column) :
  c_coerce c = None -> c_kind c = KInt \/ c_kind c = KBool -> col_scan fixed pf c DNull = Fail.
Proof. exact (null_in_int_or_bool_rejected fixed pf c). Qed.
Print Assumptions C19_null_in_int_or_bool_rejected.

(* NOT part of the property (outside its quantifier) but what the code does: NULLs *before* the first
   value of an int / bool column are counted and never back-filled: the column comes out shorter. *)
Example C19_leading_null_in_int_column_is_dropped :
  read_sql (fun x _ => x) (fun _ => None) (mkCfg [] 0 false 0 None)
           (mkRS [str "a"] [[DNull]; [DInt 1]; [DInt 2]]) no_faults
  = Ok [(str "a", CInt [1; 2]%Z)].
Proof. vm_compute. reflexivity. Qed.

(* ---- round trip: a frame written to a store (one row per executed statement, the frame's column
   names) and read back.  spec_frame f is the frame the property demands: the logical content of f,
   enum columns as strings.  Side conditions: those of C19_roundtrip_defined. *)
Theorem C19_roundtrip fixed pf (f : frame) (conf : sql_config) cols :
  q_coerce conf = None -> (q_precision conf <= 0)%Z ->
  spec_frame f = Some cols ->
  exists log,
    to_sql f conf (fun _ => true) = (log, SOk) /\
    length log = length (findex f) /\
    read_sql fixed pf conf (store_of (map fst (fcols f)) log) no_faults = Ok cols.
Proof. exact (roundtrip fixed pf f conf cols). Qed.
Print Assumptions C19_roundtrip.

(* the frame read back is cell-wise equal to f: same column names in the same order, and cell (i, j)
   (as a driver value: int, float bits, bool, string, NULL) is the cell of column j of f at index[i];
   enum cells come back as their string *)
Theorem C19_roundtrip_cells (f : frame) cols :
  spec_frame f = Some cols ->
  map fst cols = map fst (fcols f) /\
  forall j nd c i p,
    nth_error cols j = Some nd -> nth_error (fcols f) j = Some c -> nth_error (findex f) i = Some p ->
    spec_cell (snd nd) i = spec_cell (snd c) p.
Proof. exact (spec_frame_cells f cols). Qed.
Print Assumptions C19_roundtrip_cells.

(* the exact side conditions: a well-formed frame with at least one row, distinct column names that
   qframe.New accepts (non-empty, not quoted, not starting with $), and a non-null cell among the rows
   of every string / enum column (an all-NULL column has no type: Data() = nil and New reports Err) *)
Theorem C19_roundtrip_defined (f : frame) :
  frame_ok f -> findex f <> [] ->
  nodupb (map fst (fcols f)) = true -> forallb check_name (map fst (fcols f)) = true ->
  (forall c, In c (fcols f) -> has_value (snd c) (findex f)) ->
  exists cols, spec_frame f = Some cols.
Proof. exact (spec_frame_defined f). Qed.
Print Assumptions C19_roundtrip_defined.

Example C19_roundtrip_example :
  spec_frame example_frame
  = Some [(str "i", CInt [30; 10; 20]%Z); (str "s", CStr [Some (str "z"); Some (str "x"); None]);
          (str "e", CStr [Some (str "u"); Some (str "v"); None])].
Proof. vm_compute. reflexivity. Qed.

(* an entirely null string column: ReadSQL reports Err (the property excludes such frames) *)
Example C19_all_null_column_is_an_error :
  let f := mkFrame [(str "s", CStr [None; None])] [0; 1]%nat in
  let conf := mkCfg (str "t") 0 false 0 None in
  read_sql (fun x _ => x) (fun _ => None) conf
           (store_of [str "s"] (fst (to_sql f conf (fun _ => true)))) no_faults = Fail.
Proof. vm_compute. reflexivity. Qed.

(* What is NOT proved here: reading with coercions (Int64ToBool, StringToFloat) and with Precision > 0
   ("configured coercions and float precision applied") is covered by the correspondence engine only:
   strconv.ParseFloat and float.Fixed are parameters of the model, the engine checks them against
   per-case oracle tables.  The round trip is stated for the configuration without them. *)
