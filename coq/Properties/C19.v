(* Property C19 — ToSQL writes each row as one INSERT; ReadSQL rebuilds the result set.
   Model: Model/Sql.v; specification functions (also the oracle of engine "sql"): Corr/IOCorr.v
   (spec_insert, spec_rows, spec_read, spec_frame) and Model/SqlSpec.v (spec_column, prep, g_of,
   spec_read_gen, spec_read_must_fail: the reading side for every configuration). *)
From Coq Require Import String.
From QF Require Import Base.Prelude Model.Sql Model.IOFault Corr.IOCorr Proofs.SqlProofs Proofs.SqlProofs2.
Local Open Scope N_scope.

(* ---- statement text: table and n identifiers wrapped in the escape character, n placeholders
   ("?" or $1..$n with decimal numbering), for every name list and dialect.  spec_insert is
     "INSERT INTO " ++ wrap table ++ " (" ++ join "," (map wrap names) ++ ") VALUES ("
                    ++ join "," (map mark [1..n]) ++ ");"                                  *)
Theorem C19_insert_text_shape (names : list bytes) (conf : sql_config) :
  insert_text names conf = spec_insert names (q_table conf) (q_escape conf) (q_incr conf).
Proof. exact (insert_text_spec names conf). Qed.
Print Assumptions C19_insert_text_shape.

(* the numbering of the $i placeholders is decimal: the digits written for i denote i *)
Theorem C19_placeholder_numbering (n : N) :
  dec_value 0 (itoa n) = n /\ Forall is_digit (itoa n) /\ itoa n <> [].
Proof. exact (itoa_spec n). Qed.
Print Assumptions C19_placeholder_numbering.

Example C19_insert_text_example :
  spec_insert [str "a"; str "b c"] (str "t") 34 true
  = str "INSERT INTO ""t"" (""a"",""b c"") VALUES ($1,$2);"
  /\ spec_insert [str "a"; str "b"; str "c"] (str "t") 0 false = str "INSERT INTO t (a,b,c) VALUES (?,?,?);".
Proof. split; vm_compute; reflexivity. Qed.

(* ---- ToSQL: the statements that reach the driver are, in frame order, one INSERT per row of the frame
   (spec_rows f: the cells of all columns at index[0], index[1], ...; null string / enum -> NULL) *)
Theorem C19_statements (f : frame) (conf : sql_config) (rows : list (list dval)) :
  spec_rows f = Some rows ->
  to_sql f conf (fun _ => true)
  = (map (fun r => (insert_text (map fst (fcols f)) conf, r)) rows, SOk).
Proof. exact (to_sql_statements f conf rows). Qed.
Print Assumptions C19_statements.

(* the premise holds for every frame the library can build (index within the columns, enum ranks
   within the value table), with one row of arguments per index position *)
Theorem C19_statements_premise (f : frame) :
  frame_ok f -> exists rows, spec_rows f = Some rows /\ length rows = length (findex f).
Proof. exact (frame_ok_rows_length f). Qed.
Print Assumptions C19_statements_premise.

Definition example_frame : frame :=
  mkFrame [(str "i", CInt [10; 20; 30]%Z); (str "s", CStr [Some (str "x"); None; Some (str "z")]);
           (str "e", CEnum [1; 255; 0] [str "u"; str "v"])] [2; 0; 1]%nat.

Example C19_statements_example :
  spec_rows example_frame
  = Some [[DInt 30; DStr (str "z"); DStr (str "u")]; [DInt 10; DStr (str "x"); DStr (str "v")];
          [DInt 20; DNull; DNull]].
Proof. vm_compute. reflexivity. Qed.

(* ---- ReadSQL: for every result set inside the property's quantifier (spec_read defined: distinct,
   admissible column names, at least one row, every column of one SQL type with NULLs only in float and
   text columns and at least one non-NULL value), read without coercion and precision: the frame has the
   result set's column names in order, int64 -> int, float64, bool, text / []byte -> string, NULL -> null
   string / NaN, leading NULLs back-filled. *)
Theorem C19_read fixed pf (conf : sql_config) (names : list bytes) (rows : list (list dval)) cols :
  q_coerce conf = None -> (q_precision conf <= 0)%Z ->
  spec_read names rows = Some cols ->
  read_sql fixed pf conf (mkRS names rows) no_faults = Ok cols.
Proof. exact (read_sql_spec fixed pf conf names rows cols). Qed.
Print Assumptions C19_read.

Example C19_read_example :
  spec_read [str "f"; str "s"; str "i"]
            [[DNull; DNull; DInt 1]; [DFloat 0x3FF8000000000000; DBytes (str "y"); DInt 2]; [DNull; DStr (str "z"); DInt 3]]
  = Some [(str "f", CFloat [nan_bits; 0x3FF8000000000000; nan_bits]);
          (str "s", CStr [None; Some (str "y"); Some (str "z")]);
          (str "i", CInt [1; 2; 3]%Z)].
Proof. vm_compute. reflexivity. Qed.

(* a NULL arriving in a column already known to hold int or bool values is rejected (ReadSQL then
   returns Err through rows.Scan) *)
Theorem C19_null_in_int_or_bool_rejected fixed pf (c : column) :
  c_coerce c = None -> c_kind c = KInt \/ c_kind c = KBool -> col_scan fixed pf c DNull = Fail.
Proof. exact (null_in_int_or_bool_rejected fixed pf c). Qed.
Print Assumptions C19_null_in_int_or_bool_rejected.

(* NOT part of the property (outside its quantifier) but what the code does: NULLs *before* the first
   value of an int / bool column are counted and never back-filled: the column comes out shorter. *)
Example C19_leading_null_in_int_column_is_dropped :
  read_sql (fun x _ => x) (fun _ => None) (mkCfg [] 0 false 0 None)
           (mkRS [str "a"] [[DNull]; [DInt 1]; [DInt 2]]) no_faults
  = Ok [(str "a", CInt [1; 2]%Z)].
Proof. vm_compute. reflexivity. Qed.

(* ---- round trip: a frame written to a store (one row per executed statement, the frame's column
   names) and read back.  spec_frame f is the frame the property demands: the logical content of f,
   enum columns as strings.  Side conditions: those of C19_roundtrip_defined. *)
Theorem C19_roundtrip fixed pf (f : frame) (conf : sql_config) cols :
  q_coerce conf = None -> (q_precision conf <= 0)%Z ->
  spec_frame f = Some cols ->
  exists log,
    to_sql f conf (fun _ => true) = (log, SOk) /\
    length log = length (findex f) /\
    read_sql fixed pf conf (store_of (map fst (fcols f)) log) no_faults = Ok cols.
Proof. exact (roundtrip fixed pf f conf cols). Qed.
Print Assumptions C19_roundtrip.

(* the frame read back is cell-wise equal to f: same column names in the same order, and cell (i, j)
   (as a driver value: int, float bits, bool, string, NULL) is the cell of column j of f at index[i];
   enum cells come back as their string *)
Theorem C19_roundtrip_cells (f : frame) cols :
  spec_frame f = Some cols ->
  map fst cols = map fst (fcols f) /\
  forall j nd c i p,
    nth_error cols j = Some nd -> nth_error (fcols f) j = Some c -> nth_error (findex f) i = Some p ->
    spec_cell (snd nd) i = spec_cell (snd c) p.
Proof. exact (spec_frame_cells f cols). Qed.
Print Assumptions C19_roundtrip_cells.

(* the exact side conditions: a well-formed frame with at least one row, distinct column names that
   qframe.New accepts (non-empty, not quoted, not starting with $), and a non-null cell among the rows
   of every string / enum column (an all-NULL column has no type: Data() = nil and New reports Err) *)
Theorem C19_roundtrip_defined (f : frame) :
  frame_ok f -> findex f <> [] ->
  nodupb (map fst (fcols f)) = true -> forallb check_name (map fst (fcols f)) = true ->
  (forall c, In c (fcols f) -> has_value (snd c) (findex f)) ->
  exists cols, spec_frame f = Some cols.
Proof. exact (spec_frame_defined f). Qed.
Print Assumptions C19_roundtrip_defined.

Example C19_roundtrip_example :
  spec_frame example_frame
  = Some [(str "i", CInt [30; 10; 20]%Z); (str "s", CStr [Some (str "z"); Some (str "x"); None]);
          (str "e", CStr [Some (str "u"); Some (str "v"); None])].
Proof. vm_compute. reflexivity. Qed.

(* an entirely null string column: ReadSQL reports Err (the property excludes such frames) *)
Example C19_all_null_column_is_an_error :
  let f := mkFrame [(str "s", CStr [None; None])] [0; 1]%nat in
  let conf := mkCfg (str "t") 0 false 0 None in
  read_sql (fun x _ => x) (fun _ => None) conf
           (store_of [str "s"] (fst (to_sql f conf (fun _ => true)))) no_faults = Fail.
Proof. vm_compute. reflexivity. Qed.

(* ====================================================================================================
   Second wave: reading with coercions and with Precision > 0, for EVERY configuration.

   float.Fixed and strconv.ParseFloat are not modelled (floating point arithmetic): in every theorem
   below [fixed : N -> Z -> N] (Fixed on bit patterns) and [pf : bytes -> option N] (ParseFloat, None =
   error) are universally quantified, i.e. the statements hold whatever these two functions compute.
   Auxiliary definitions (Model/SqlSpec.v: coerce_fn, g_of, fix_val, prep, spec_read_gen, spec_read_must_fail -
   these are what the oracle of engine "sql" executes; Proofs/SqlProofs2.v: dispatch):
     dispatch fixed c t      the type switch of Column.Scan (what Scan does when c.coerce == nil)
     coerce_fn pf k v        the two shipped coercions as functions on driver values (None = error)
     g_of pf conf name       the coercion configured for a column name (identity [Some] when there is none)
     fix_val fixed p v       float.Fixed applied to a float64 driver value when p > 0, other values unchanged
     prep g fixed p vals     the values of a column after coercion and rounding; NULLs skip both;
                             None as soon as the coercion reports an error for one value
     spec_read_gen           IOCorr.spec_read with the values of column j going through
                             prep (g_of pf conf name_j) fixed (q_precision conf) first
     scan_col fixed pf c vs  (Proofs/SqlProofs.v) the fold of the model's col_scan over the values of one column *)

(* scan_col is nothing but the model's Column.Scan applied value after value *)
Theorem C19_scan_col_is_fold fixed pf (c : column) (v : dval) (vs : list dval) :
  scan_col fixed pf c [] = Ok c /\
  scan_col fixed pf c (v :: vs) = (do c' <- col_scan fixed pf c v; scan_col fixed pf c' vs).
Proof. exact (conj eq_refl eq_refl). Qed.
Print Assumptions C19_scan_col_is_fold.

(* ---- (4a) Column.Scan with a coercion = the coercion applied to every non-NULL value, then the
   ordinary type switch; NULL handling unchanged (Column.Null); an error of the coercion is an error
   of Scan.  Without coercion Scan is the type switch. *)
Theorem C19_scan_coerced fixed pf (c : column) (t : dval) :
  (c_coerce c = None -> col_scan fixed pf c t = dispatch fixed c t) /\
  (forall k, c_coerce c = Some k ->
     col_scan fixed pf c t =
     match t with
     | DNull => col_null c
     | _ => match coerce_fn pf k t with Some t' => dispatch fixed c t' | None => Fail end
     end).
Proof. exact (scan_coerced fixed pf c t). Qed.
Print Assumptions C19_scan_coerced.

(* what the shipped coercions do: Int64ToBool accepts int64 only (v != 0); StringToFloat accepts a
   string that ParseFloat accepts - a []byte (what many drivers deliver for TEXT) is rejected *)
Example C19_coerce_fn_example pf s x :
  coerce_fn pf CoInt64ToBool (DInt 0) = Some (DBool false) /\
  coerce_fn pf CoInt64ToBool (DInt (-3)) = Some (DBool true) /\
  coerce_fn pf CoInt64ToBool (DStr s) = None /\
  coerce_fn pf CoInt64ToBool (DBool true) = None /\
  coerce_fn pf CoStringToFloat (DStr s) = option_map DFloat (pf s) /\
  coerce_fn pf CoStringToFloat (DBytes s) = None /\
  coerce_fn pf CoStringToFloat (DFloat x) = None.
Proof. repeat split; reflexivity. Qed.

(* toy stand-ins for the two unmodelled functions, used by the examples only *)
Definition toy_fixed (x : N) (p : Z) : N := x + 1000 * Z.to_N p.
Definition toy_pf (s : bytes) : option N :=
  if bytes_eqb s (str "1.5") then Some 0x3FF8000000000000 else None.

(* ---- (4b) one value: a column c (any coercion function g, any precision) scanning v behaves as the
   column with the same data but neither coercion nor precision scanning the prepared value v' *)
Theorem C19_scan_simulation fixed pf (g : dval -> option dval) (c c' : column) (v v' : dval) :
  same_data c c' ->
  (v = DNull /\ v' = DNull) \/ (v <> DNull /\ exists w, g v = Some w /\ v' = fix_val fixed (c_prec c) w) ->
  match gen_scan fixed g c v with
  | Ok c1 => exists c1', col_scan fixed pf c' v' = Ok c1' /\ same_data c1 c1'
  | Fail => col_scan fixed pf c' v' = Fail
  | Panic => False
  end.
Proof. exact (gen_scan_step fixed pf g c c' v v'). Qed.
Print Assumptions C19_scan_simulation.

Example C19_scan_simulation_example :
  same_data (new_column 2 (Some CoStringToFloat)) (new_column 0 None)
  /\ DStr (str "1.5") <> DNull
  /\ coerce_fn toy_pf CoStringToFloat (DStr (str "1.5")) = Some (DFloat 0x3FF8000000000000)
  /\ fix_val toy_fixed 2 (DFloat 0x3FF8000000000000) = DFloat (0x3FF8000000000000 + 2000).
Proof. split; [apply same_data_strip; reflexivity|]. split; [discriminate|]. split; vm_compute; reflexivity. Qed.

(* a whole column: if the prepared values form a column of one SQL type (IOCorr.spec_column), Data()
   of a fresh Column with coercion co and precision prec after scanning vals is that column *)
Theorem C19_column_coerced fixed pf (vals vals' : list dval) (d : coldata) (prec : Z) (co : option coerce_kind) :
  prep (g_co pf co) fixed prec vals = Some vals' -> spec_column vals' = Some d ->
  exists c, scan_col fixed pf (new_column prec co) vals = Ok c /\ col_data c = Some d
            /\ coldata_len d = length vals.
Proof. exact (scan_col_prep_spec fixed pf vals vals' d prec co). Qed.
Print Assumptions C19_column_coerced.

Example C19_column_coerced_example :
  prep (g_co toy_pf (Some CoStringToFloat)) toy_fixed 2 [DNull; DStr (str "1.5"); DNull]
  = Some [DNull; DFloat (0x3FF8000000000000 + 2000); DNull]
  /\ spec_column [DNull; DFloat (0x3FF8000000000000 + 2000); DNull]
     = Some (CFloat [nan_bits; 0x3FF8000000000000 + 2000; nan_bits]).
Proof. split; vm_compute; reflexivity. Qed.

(* a non-NULL value on which the column's coercion reports an error: the column scan reports an error *)
Theorem C19_column_coercion_error fixed pf (vals : list dval) (prec : Z) (co : option coerce_kind) (v : dval) :
  In v vals -> v <> DNull -> g_co pf co v = None -> scan_col fixed pf (new_column prec co) vals = Fail.
Proof. exact (scan_col_coercion_error fixed pf vals prec co v). Qed.
Print Assumptions C19_column_coercion_error.

Example C19_column_coercion_error_example :
  In (DStr (str "x")) [DInt 1; DStr (str "x")] /\ DStr (str "x") <> DNull
  /\ g_co toy_pf (Some CoInt64ToBool) (DStr (str "x")) = None
  /\ g_co toy_pf (Some CoStringToFloat) (DStr (str "x")) = None.
Proof. repeat split; try reflexivity; [right; left; reflexivity|discriminate]. Qed.

(* ---- (4c) C19_read_coerced: ReadSQL for every configuration - any coercion map, any precision.
   spec_read_gen defined = distinct admissible column names, at least one row, and every column AFTER
   coercion and rounding of one SQL type with NULLs only in float / text columns and one non-NULL value. *)
Theorem C19_read_coerced fixed pf (conf : sql_config) (names : list bytes) (rows : list (list dval)) cols :
  spec_read_gen fixed pf conf names rows = Some cols ->
  read_sql fixed pf conf (mkRS names rows) no_faults = Ok cols.
Proof. exact (read_sql_gen_spec fixed pf conf names rows cols). Qed.
Print Assumptions C19_read_coerced.

(* it generalises C19_read: without coercion map and precision spec_read_gen is spec_read *)
Theorem C19_read_coerced_generalises_read fixed pf (conf : sql_config) names rows :
  q_coerce conf = None -> (q_precision conf <= 0)%Z ->
  spec_read_gen fixed pf conf names rows = spec_read names rows.
Proof. exact (spec_read_gen_plain fixed pf conf names rows). Qed.
Print Assumptions C19_read_coerced_generalises_read.

Example C19_read_coerced_generalises_read_example :
  let conf := mkCfg (str "t") 34 true 0 None in q_coerce conf = None /\ (q_precision conf <= 0)%Z.
Proof. split; [reflexivity|discriminate]. Qed.

(* columns b (Int64ToBool) and f (StringToFloat) coerced, x a float column, i an int column, Precision 2:
   the NULLs of f and x (leading ones back-filled) are math.NaN() and do not go through Fixed; the parsed
   value of f does *)
Definition example_conf : sql_config :=
  mkCfg (str "t") 0 false 2 (Some [(str "b", Some CoInt64ToBool); (str "f", Some CoStringToFloat)]).
Example C19_read_coerced_example :
  spec_read_gen toy_fixed toy_pf example_conf [str "b"; str "f"; str "x"; str "i"]
    [[DInt 0; DNull; DNull; DInt 4]; [DInt 7; DStr (str "1.5"); DFloat 16; DInt 5]; [DInt 1; DNull; DNull; DInt 6]]
  = Some [(str "b", CBool [false; true; true]);
          (str "f", CFloat [nan_bits; 0x3FF8000000000000 + 2000; nan_bits]);
          (str "x", CFloat [nan_bits; 2016; nan_bits]);
          (str "i", CInt [4; 5; 6]%Z)].
Proof. vm_compute. reflexivity. Qed.

(* C19_coercion_error: a non-NULL value, anywhere in the result set, on which the coercion configured
   for its column reports an error: ReadSQL returns Err (and does not panic) *)
Theorem C19_coercion_error fixed pf (conf : sql_config) (rs : result_set) row j n v :
  In row (rs_rows rs) -> nth_error (rs_names rs) j = Some n -> nth_error row j = Some v ->
  v <> DNull -> g_of pf conf n v = None ->
  read_sql fixed pf conf rs no_faults = Fail.
Proof. exact (read_sql_coercion_error_fails fixed pf conf rs row j n v). Qed.
Print Assumptions C19_coercion_error.

(* the same for the shipped coercions: anything but an int64 in an Int64ToBool column, anything but a
   string that ParseFloat accepts in a StringToFloat column *)
Theorem C19_shipped_coercion_error fixed pf (conf : sql_config) (rs : result_set) row j n v k :
  In row (rs_rows rs) -> nth_error (rs_names rs) j = Some n -> nth_error row j = Some v ->
  co_of conf n = Some k ->
  match k, v with
  | _, DNull => False
  | CoInt64ToBool, DInt _ => False
  | CoStringToFloat, DStr s => pf s = None
  | _, _ => True
  end ->
  read_sql fixed pf conf rs no_faults = Fail.
Proof. exact (read_sql_shipped_coercion_error fixed pf conf rs row j n v k). Qed.
Print Assumptions C19_shipped_coercion_error.

Example C19_coercion_error_example :
  let rs1 := mkRS [str "b"; str "f"] [[DInt 1; DStr (str "1.5")]; [DStr (str "x"); DStr (str "1.5")]] in
  let rs2 := mkRS [str "b"; str "f"] [[DInt 1; DStr (str "1.5")]; [DInt 0; DStr (str "abc")]] in
  (In [DStr (str "x"); DStr (str "1.5")] (rs_rows rs1) /\ nth_error (rs_names rs1) 0 = Some (str "b")
   /\ nth_error [DStr (str "x"); DStr (str "1.5")] 0 = Some (DStr (str "x"))
   /\ co_of example_conf (str "b") = Some CoInt64ToBool
   /\ g_of toy_pf example_conf (str "b") (DStr (str "x")) = None)
  /\ (co_of example_conf (str "f") = Some CoStringToFloat /\ toy_pf (str "abc") = None)
  /\ read_sql toy_fixed toy_pf example_conf rs1 no_faults = Fail
  /\ read_sql toy_fixed toy_pf example_conf rs2 no_faults = Fail.
Proof. vm_compute. repeat split; auto. Qed.

(* ---- C19_read_must_fail: the other half of the engine's oracle.  spec_read_must_fail (Model/SqlSpec.v):
   every row has one value per column, and some column j either holds a non-NULL value on which the
   coercion configured for its name reports an error, or - after coercion - a NULL follows the value
   that made it an int / bool column.  Then ReadSQL returns Err, for every configuration. *)
Theorem C19_read_must_fail fixed pf (conf : sql_config) (names : list bytes) (rows : list (list dval)) :
  spec_read_must_fail fixed pf conf names rows = true ->
  read_sql fixed pf conf (mkRS names rows) no_faults = Fail.
Proof. exact (read_sql_must_fail fixed pf conf names rows). Qed.
Print Assumptions C19_read_must_fail.

Example C19_read_must_fail_example :
  (* "abc" in the StringToFloat column f *)
  spec_read_must_fail toy_fixed toy_pf example_conf [str "i"; str "b"; str "f"]
    [[DInt 4; DInt 1; DStr (str "1.5")]; [DInt 5; DInt 0; DStr (str "abc")]] = true
  (* a NULL after the first value of the Int64ToBool column b (a bool column after coercion) *)
  /\ spec_read_must_fail toy_fixed toy_pf example_conf [str "i"; str "b"; str "f"]
       [[DInt 4; DInt 1; DNull]; [DInt 5; DNull; DStr (str "1.5")]] = true
  (* a NULL after the first value of the int column i *)
  /\ spec_read_must_fail toy_fixed toy_pf example_conf [str "i"; str "b"; str "f"]
       [[DInt 4; DInt 1; DNull]; [DNull; DInt 0; DStr (str "1.5")]] = true
  (* not: NULLs in the float column only; NULLs BEFORE the first int (the code drops them: outside the property) *)
  /\ spec_read_must_fail toy_fixed toy_pf example_conf [str "i"; str "b"; str "f"]
       [[DInt 4; DInt 1; DNull]; [DInt 5; DInt 0; DStr (str "1.5")]] = false
  /\ spec_read_must_fail toy_fixed toy_pf example_conf [str "i"] [[DNull]; [DInt 5]] = false.
Proof. vm_compute. repeat split; reflexivity. Qed.

(* the two halves of the oracle never contradict each other *)
Theorem C19_spec_read_consistent fixed pf (conf : sql_config) (names : list bytes) (rows : list (list dval)) cols :
  spec_read_gen fixed pf conf names rows = Some cols ->
  spec_read_must_fail fixed pf conf names rows = false.
Proof. exact (spec_read_gen_not_must_fail fixed pf conf names rows cols). Qed.
Print Assumptions C19_spec_read_consistent.

(* ReadSQL (model) never panics, whatever the configuration, the result set and the driver faults *)
Theorem C19_read_never_panics fixed pf (conf : sql_config) (rs : result_set) (flt : sql_faults) :
  read_sql fixed pf conf rs flt <> Panic.
Proof. exact (read_sql_no_panic2 fixed pf conf rs flt). Qed.
Print Assumptions C19_read_never_panics.

(* NOT part of the property but what the code does: the block of reader.go that is meant to reject a
   coercion map naming a column the result set does not have runs while colNames is still nil, so it
   never reports anything: the entry is silently ignored. *)
Example C19_coercion_of_absent_column_is_ignored :
  read_sql toy_fixed toy_pf (mkCfg [] 0 false 0 (Some [(str "nosuch", Some CoInt64ToBool)]))
           (mkRS [str "a"] [[DInt 1]; [DInt 2]]) no_faults
  = Ok [(str "a", CInt [1; 2]%Z)].
Proof. vm_compute. reflexivity. Qed.

(* ---- (5) C19_read_precision: Precision p > 0 at column level (fresh Column{precision: p}, no coercion).
   A float column: every value goes through float.Fixed; every NULL - the leading ones, back-filled,
   included - is math.NaN() and does NOT go through Fixed.
   fix_cell fixed p v = fixed x p for v = DFloat x, nan_bits for NULL. *)
Theorem C19_read_precision fixed pf (p : Z) (vals : list dval) (xs : list N) :
  (0 < p)%Z -> spec_column vals = Some (CFloat xs) ->
  exists c, scan_col fixed pf (new_column p None) vals = Ok c
            /\ col_data c = Some (CFloat (map (fix_cell fixed p) vals)).
Proof. exact (scan_precision_float fixed pf p vals xs). Qed.
Print Assumptions C19_read_precision.

Example C19_read_precision_example :
  spec_column [DNull; DNull; DFloat 16; DNull; DFloat 32] = Some (CFloat [nan_bits; nan_bits; 16; nan_bits; 32])
  /\ map (fix_cell toy_fixed 3) [DNull; DNull; DFloat 16; DNull; DFloat 32] = [nan_bits; nan_bits; 3016; nan_bits; 3032].
Proof. split; vm_compute; reflexivity. Qed.

(* the same as a statement about ReadSQL, on a result set with the single column n, which the coercion map
   does not bind (coerce_entry = None: no pair names it, with or without function) *)
Theorem C19_read_precision_result_set fixed pf (conf : sql_config) (n : bytes) (vals : list dval) (xs : list N) :
  check_name n = true -> coerce_entry conf n = None -> (0 < q_precision conf)%Z ->
  spec_column vals = Some (CFloat xs) ->
  read_sql fixed pf conf (mkRS [n] (map (fun v => [v]) vals)) no_faults
  = Ok [(n, CFloat (map (fix_cell fixed (q_precision conf)) vals))].
Proof. exact (read_sql_precision_float fixed pf conf n vals xs). Qed.
Print Assumptions C19_read_precision_result_set.

Example C19_read_precision_result_set_example :
  check_name (str "x") = true /\ coerce_entry example_conf (str "x") = None /\ (0 < q_precision example_conf)%Z.
Proof. repeat split; vm_compute; reflexivity. Qed.

(* int, bool and string columns come back unchanged whatever the precision *)
Theorem C19_read_precision_non_float fixed pf (p : Z) (vals : list dval) (d : coldata) :
  spec_column vals = Some d -> (forall xs, d <> CFloat xs) ->
  exists c, scan_col fixed pf (new_column p None) vals = Ok c /\ col_data c = Some d.
Proof. exact (scan_precision_other fixed pf p vals d). Qed.
Print Assumptions C19_read_precision_non_float.

Example C19_read_precision_non_float_example :
  spec_column [DInt 1; DInt 2] = Some (CInt [1; 2]%Z)
  /\ spec_column [DNull; DStr (str "a"); DBytes (str "b")] = Some (CStr [None; Some (str "a"); Some (str "b")])
  /\ spec_column [DBool true] = Some (CBool [true]).
Proof. repeat split; vm_compute; reflexivity. Qed.

(* NaN and the infinities (exponent field all ones) are untouched PROVIDED float.Fixed returns them
   unchanged - which is what its guard  if math.IsNaN(scaled) || math.Abs(scaled) >= 1<<53 { return num }
   is there for; Fixed itself is not modelled, so this is a premise.  More generally
   (SqlProofs2.scan_precision_fixpoint) a column whose float values are fixed points of Fixed is unchanged. *)
Theorem C19_read_precision_nan_inf fixed pf (p : Z) (vals : list dval) (d : coldata) :
  (forall x, exp_all_ones x = true -> fixed x p = x) ->
  (forall x, In (DFloat x) vals -> exp_all_ones x = true) ->
  spec_column vals = Some d ->
  exists c, scan_col fixed pf (new_column p None) vals = Ok c /\ col_data c = Some d.
Proof. exact (scan_precision_special fixed pf p vals d). Qed.
Print Assumptions C19_read_precision_nan_inf.

Theorem C19_nan_has_exponent_all_ones (x : N) : is_nan x = true -> exp_all_ones x = true.
Proof. exact (is_nan_exp_all_ones x). Qed.
Print Assumptions C19_nan_has_exponent_all_ones.

Example C19_nan_has_exponent_all_ones_example : is_nan nan_bits = true /\ is_nan 0xFFF8000000000000 = true.
Proof. split; vm_compute; reflexivity. Qed.

Definition guarded_fixed (x : N) (p : Z) : N := if exp_all_ones x then x else toy_fixed x p.
Example C19_read_precision_nan_inf_example :
  (forall x, exp_all_ones x = true -> guarded_fixed x 2 = x)
  /\ exp_all_ones 0x7FF0000000000000 = true /\ exp_all_ones 0xFFF0000000000000 = true
  /\ exp_all_ones nan_bits = true /\ exp_all_ones 0x3FF8000000000000 = false
  /\ spec_column [DFloat 0x7FF0000000000000; DNull; DFloat 0x7FF8000000000123; DFloat 0xFFF0000000000000]
     = Some (CFloat [0x7FF0000000000000; nan_bits; 0x7FF8000000000123; 0xFFF0000000000000]).
Proof.
  split; [intros x H; unfold guarded_fixed; now rewrite H|].
  repeat split; vm_compute; reflexivity.
Qed.

(* ---- C19_coerce_without_function_is_error (defect F26, repaired in internal/io/sql/reader.go).
   A pair of the coercion map may carry NO function: config/sql.Coerce stores the Go value nil for a
   CoercePair whose Type is none of the constants (e.g. CoercePair{Column: n}).  When the column it names is
   in the result set and there is at least one row, ReadSQL reports an error — for every driver behaviour
   (flt), every precision, every other pair of the map — and does not panic (C19_read_never_panics holds for
   every configuration); the specification-level oracle demands exactly this error.  A pair without
   function for a column that is NOT in the result set is never looked at (example below). *)
Theorem C19_coerce_without_function_is_error fixed pf (conf : sql_config) (rs : result_set) (flt : sql_faults) (n : bytes) :
  rs_rows rs <> [] -> In n (rs_names rs) -> coerce_entry conf n = Some None ->
  read_sql fixed pf conf rs flt = Fail.
Proof. exact (read_sql_coerce_without_function fixed pf conf rs flt n). Qed.
Print Assumptions C19_coerce_without_function_is_error.

Theorem C19_coerce_without_function_spec fixed pf (conf : sql_config) (names : list bytes) (rows : list (list dval)) (n : bytes) :
  rows <> [] -> In n names -> coerce_entry conf n = Some None ->
  spec_read_must_fail fixed pf conf names rows = true /\ spec_read_gen fixed pf conf names rows = None.
Proof. exact (spec_coerce_without_function fixed pf conf names rows n). Qed.
Print Assumptions C19_coerce_without_function_spec.

(* premises satisfiable: column a bound without function (the later pair replaces the earlier Int64ToBool);
   the same map is harmless for a result set without column a, and with no row at all *)
Example C19_coerce_without_function_example :
  let conf := mkCfg [] 0 false 0 (Some [(str "a", Some CoInt64ToBool); (str "a", None); (str "b", Some CoInt64ToBool)]) in
  let rs := mkRS [str "a"; str "b"] [[DInt 1; DInt 0]; [DInt 2; DInt 5]] in
  rs_rows rs <> [] /\ In (str "a") (rs_names rs) /\ coerce_entry conf (str "a") = Some None
  /\ read_sql toy_fixed toy_pf conf rs no_faults = Fail
  /\ read_sql toy_fixed toy_pf conf (mkRS [str "b"; str "c"] [[DInt 1; DInt 0]; [DInt 2; DInt 5]]) no_faults
     = Ok [(str "b", CBool [true; true]); (str "c", CInt [0; 5]%Z)]
  /\ read_sql toy_fixed toy_pf conf (mkRS [str "a"; str "b"] []) no_faults
     = read_sql toy_fixed toy_pf (mkCfg [] 0 false 0 None) (mkRS [str "a"; str "b"] []) no_faults.
Proof.
  cbv zeta. split; [discriminate|]. split; [left; reflexivity|]. repeat split; vm_compute; reflexivity.
Qed.

(* ---- (6) C19_roundtrip_options: the round trip for every configuration in which (i) no column of the
   frame is bound in the coercion map (the map may bind other names) and (ii) Precision <= 0, or
   float.Fixed at that precision is the identity on every float cell of the frame at its index positions *)
Theorem C19_roundtrip_options fixed pf (f : frame) (conf : sql_config) cols :
  (forall n, In n (map fst (fcols f)) -> coerce_entry conf n = None) ->
  ((q_precision conf <= 0)%Z \/
   forall rows row x, spec_rows f = Some rows -> In row rows -> In (DFloat x) row ->
                      fixed x (q_precision conf) = x) ->
  spec_frame f = Some cols ->
  exists log,
    to_sql f conf (fun _ => true) = (log, SOk) /\
    length log = length (findex f) /\
    read_sql fixed pf conf (store_of (map fst (fcols f)) log) no_faults = Ok cols.
Proof. exact (roundtrip_options fixed pf f conf cols). Qed.
Print Assumptions C19_roundtrip_options.

Definition example_frame2 : frame :=
  mkFrame [(str "x", CFloat [0x7FF0000000000000; 0x3FF8000000000000; 0x7FF8000000000123]); (str "i", CInt [1; 2; 3]%Z)]
          [2; 0]%nat.
Definition example_conf2 : sql_config := mkCfg (str "t") 34 true 2 (Some [(str "other", Some CoInt64ToBool)]).

Example C19_roundtrip_options_example :
  (forall n, In n (map fst (fcols example_frame2)) -> coerce_entry example_conf2 n = None)
  /\ (forall rows row x, spec_rows example_frame2 = Some rows -> In row rows -> In (DFloat x) row ->
                         guarded_fixed x (q_precision example_conf2) = x)
  /\ spec_frame example_frame2
     = Some [(str "x", CFloat [0x7FF8000000000123; 0x7FF0000000000000]); (str "i", CInt [3; 1]%Z)].
Proof.
  split; [|split].
  - intros n [<-|[<-|[]]]; reflexivity.
  - intros rows row x H. vm_compute in H. inversion H; subst; clear H.
    intros [<-|[<-|[]]] [E|[E|[]]]; inversion E; subst; reflexivity.
  - vm_compute. reflexivity.
Qed.

(* What is NOT proved here:
   * float.Fixed and strconv.ParseFloat themselves are not modelled: every theorem of the second wave is
     stated for arbitrary functions [fixed] and [pf]; that the real Fixed rounds to p decimals, leaves
     NaN / infinities / large values alone (premise of C19_read_precision_nan_inf), or is the identity on
     given cells (premise (ii) of C19_roundtrip_options) is checked by the correspondence engine only
     (per-case oracle tables).  In particular the round trip with Precision > 0 is proved only for frames
     whose float cells Fixed leaves unchanged: a cell with more decimals comes back rounded, and
     Fixed(-0.0, p) = +0.0 in the implementation.
   * The round trip through a coerced column (a bool column stored as int and read back with Int64ToBool,
     a float column stored as text and read back with StringToFloat) is not stated: the writer never
     produces such stores; C19_read_coerced covers the reading side for any result set.
   * Result sets outside spec_read_gen (mixed types after coercion, NULL in an int / bool column, no
     non-NULL value, duplicate or inadmissible names, no rows) are outside the quantifier; for them only
     C19_read_must_fail (coercion error, NULL after the first value of an int / bool column),
     C19_coercion_error, C19_null_in_int_or_bool_rejected and C19_read_never_panics apply.
   * database/sql (argument conversion, Rows.Scan dispatch) is trusted, as before. *)
