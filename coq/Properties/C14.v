(* Property C14 — ToJSON emits valid JSON that denotes the frame; ReadJSON inverts it.
   Proved here: the hand written string escaper (values and column names) for EVERY byte string, the record
   assembly, the number cells (ints, floats through the Ryu model, NaN as null), hence the whole document
   of every frame whose floats are finite or NaN (C14_valid), and the ReadJSON round trip (C14_readback)
   with the float round trip as a premise (C14_full_from_ryu_interval_partial says what is missing).
   Statements only; proofs are in Proofs/JsonProofs.v and Proofs/JsonDocProofs.v.  The specification
   (RFC 8259 string reader json_parse_string, RFC 3629 character reader, document reader) is the second
   half of Model/Json.v; the value of a number token (jnum_value) and the value tree (decode_doc) are in
   Model/JsonRead.v, with the model of the cell renderers, of ToJSON of a frame and of ReadJSON. *)
From QF Require Import Base.Prelude Model.Utf8 Model.Json Proofs.Utf8Proofs Proofs.JsonProofs.
From QF Require Import Model.Ryu Model.Frame Model.Filter Model.Ops Model.JsonRead Proofs.EnumProofs Proofs.JsonDocProofs.
From QF Require Model.CsvWrite Proofs.RyuShortest.
Local Open Scope N_scope.

(* AppendQuotedString on an empty buffer: for every byte string s (no premise at all) the output is
   accepted by the RFC 8259 string reader, nothing is left over, and the code points read are the
   input with every ill-formed byte replaced by U+FFFD (on valid UTF-8: the input itself). *)
Theorem C14_escape_valid (s : bytes) :
  exists out, append_quoted_string [] s = Ok out /\
              json_parse_string out = Some (utf8_sanitize s, []).
Proof. exact (escape_valid s). Qed.
Print Assumptions C14_escape_valid.

(* What is already in the buffer is kept and has no influence on what is appended. *)
Theorem C14_escape_prefix_independent (buf s : bytes) :
  exists out, append_quoted_string [] s = Ok out /\ append_quoted_string buf s = Ok (buf ++ out).
Proof. exact (escape_prefix_independent buf s). Qed.
Print Assumptions C14_escape_prefix_independent.

(* Column names go through QuotedBytes. *)
Theorem C14_quoted_bytes_valid (s : bytes) :
  exists out, quoted_bytes s = Ok out /\ json_parse_string out = Some (utf8_sanitize s, []).
Proof. exact (quoted_bytes_valid s). Qed.
Print Assumptions C14_quoted_bytes_valid.

(* On valid UTF-8 the sanitized string is the string: encoding the code points gives the bytes back. *)
Theorem C14_sanitize_identity_on_valid (s : bytes) :
  utf8_valid s = true -> utf8_encode (map Z.of_N (utf8_sanitize s)) = s.
Proof. exact (encode_decode_id s). Qed.
Print Assumptions C14_sanitize_identity_on_valid.

(* a concrete input satisfying the premise: a, quote, backslash, LF, U+2028, e-acute, U+1F600 *)
Example C14_valid_example :
  utf8_valid (bs 13 0x61225C0AE280A8C3A9F09F9880) = true.
Proof. vm_compute. reflexivity. Qed.

(* a concrete run: quote, backslash, control, truncated sequence, U+2028 *)
Example C14_escape_example :
  append_quoted_string [] (bs 8 0x225C01E282E280A8)
  = Ok (bs 30 0x225C225C5C5C75303030315C75666666645C75666666645C753230323822).
Proof. vm_compute. reflexivity. Qed.

(* The reader stops right after the closing quotation mark, whatever follows (used for keys and values
   inside a document). *)
Theorem C14_escape_valid_tail (s tl : bytes) :
  exists out, append_quoted_string [] s = Ok out /\
              json_parse_string (out ++ tl) = Some (utf8_sanitize s, tl).
Proof. exact (escape_valid_tail s tl). Qed.
Print Assumptions C14_escape_valid_tail.

(* ---------------------------------------------------------------- document level (record assembly)
   For every list of column names and every list of rows of cell renderings (no premise: rows of the
   wrong length are cut like the Go loop over qf.columns would), ToJSON never fails and writes exactly
     [ obj , obj ... ]     obj = { qname : cell , qname : cell ... }
   with qname = QuotedBytes(name): the hand placed commas and the trailing-comma trim are right, zero
   rows give [] and zero columns give {} per row. *)
Theorem C14_to_json_shape (names : list bytes) (rows : list (list bytes)) :
  exists qnames, omap quoted_bytes names = Ok qnames /\ length qnames = length names /\
                 to_json names rows = Ok (doc_text qnames rows).
Proof. exact (to_json_shape names rows). Qed.
Print Assumptions C14_to_json_shape.

Example C14_to_json_zero_rows : to_json [bs 1 0x61] [] = Ok (bs 2 0x5B5D).
Proof. vm_compute. reflexivity. Qed.
Example C14_to_json_zero_columns_shape : doc_text [] [[]; []] = bs 7 0x5B7B7D2C7B7D5D.
Proof. vm_compute. reflexivity. Qed.

(* The document reads back: for all column names (any bytes) and all rows whose cells denote tokens
   (value_denotes cell t: followed by , or } the value reader parse_value reads t and stops there),
   ToJSON succeeds and the document reader parse_doc (RFC 8259 subset without whitespace, Model/Json.v)
   returns one object per row, in row order, keys = sanitized column names in column order. *)
Theorem C14_to_json_document (names : list bytes) (rows : list (list bytes)) (toks : list (list jtoken)) :
  Forall2 (fun cells ts => length cells = length names /\ Forall2 value_denotes cells ts) rows toks ->
  exists out, to_json names rows = Ok out /\
              parse_doc out = Some (map (combine (map utf8_sanitize names)) toks).
Proof. exact (to_json_document names rows toks). Qed.
Print Assumptions C14_to_json_document.

(* the cells the column renderers produce denote tokens: strings (through AppendQuotedString), null,
   true, false.  Number cells (ints, floats): value_denotes is a premise to be discharged by the models
   of the number formatters (C16); json_number in Model/Json.v is the grammar they must satisfy. *)
Theorem C14_string_cell (s out : bytes) :
  append_quoted_string [] s = Ok out -> value_denotes out (JStr (utf8_sanitize s)).
Proof. exact (string_value_denotes s out). Qed.
Theorem C14_null_cell : value_denotes (bs 4 0x6E756C6C) JNull.
Proof. exact null_value_denotes. Qed.
Theorem C14_true_cell : value_denotes (bs 4 0x74727565) (JBool true).
Proof. exact true_value_denotes. Qed.
Theorem C14_false_cell : value_denotes (bs 5 0x66616C7365) (JBool false).
Proof. exact false_value_denotes. Qed.
Print Assumptions C14_string_cell.

(* a concrete frame satisfying the premise: one column named a-quote-b, rows: null and the string x *)
Example C14_document_example :
  let names := [bs 3 0x612262] in
  let rows := [[bs 4 0x6E756C6C]; [bs 3 0x227822]] in
  let toks := [[JNull]; [JStr [0x78]]] in
  Forall2 (fun cells ts => length cells = length names /\ Forall2 value_denotes cells ts) rows toks /\
  to_json names rows = Ok (bs 28 0x5B7B22615C2262223A6E756C6C7D2C7B22615C2262223A2278227D5D).
Proof.
  cbv zeta. split; [|vm_compute; reflexivity].
  constructor; [split; [reflexivity|constructor; [exact null_value_denotes|constructor]]|].
  constructor; [|constructor]. split; [reflexivity|]. constructor; [|constructor].
  apply (string_value_denotes [0x78]). vm_compute. reflexivity.
Qed.

(* ---------------------------------------------------------------- number cells
   Every text accepted by the RFC 8259 number grammar (json_number, Model/Json.v) is read by the value
   reader, in front of , or }, as that number token. *)
Theorem C14_number_token (t : bytes) : json_number t = true -> value_denotes t (JNum t).
Proof. exact (number_value_denotes t). Qed.
Print Assumptions C14_number_token.
Example C14_number_token_example : json_number (bs 7 0x2D31322E303334) = true.   (* -12.034 *)
Proof. vm_compute. reflexivity. Qed.

(* Int cells (strconv.AppendInt base 10 = Model/CsvWrite.v itoa): for EVERY z (no range premise, hence in
   particular for the int64 range) the text is a number token, and the number it denotes
   (jnum_value, Model/JsonRead.v: sign, digits of int and frac as one number, decimal exponent) is z. *)
Theorem C14_int_token (z : Z) :
  value_denotes (CsvWrite.itoa z) (JNum (CsvWrite.itoa z)) /\
  jnum_value (CsvWrite.itoa z) = Some ((z <? 0)%Z, Z.abs_N z, 0%Z).
Proof. exact (int_token z). Qed.
Print Assumptions C14_int_token.

(* Float cells: for every bit pattern that is neither NaN nor an infinity the Ryu model (AppendFloat64f on
   an empty buffer = float_text; by the next theorem on any buffer) writes a text that is a number token
   and denotes exactly (-1)^sign * m * 10^e for the pair (m, e) the Ryu model computed (float_decimal:
   float64ToDecimalExactInt, else float64ToDecimal; (0, 0) for the zeros, so -0 is written -0).  The token
   carries the exponent min(e, 0): for e > 0 the digits are those of m followed by e zeros.  That (m, e) is
   the SHORTEST decimal that rounds to the float is property C16 and is not used here. *)
Theorem C14_float_token (bits : N) :
  bits < 2 ^ 64 -> f_isnan bits = false -> f_isinf bits = false ->
  exists text m e,
    float_text bits = Ok text /\ float_decimal bits = Ok (m, e) /\
    value_denotes text (JNum text) /\
    jnum_value text = Some (negb (bits / 2 ^ 63 =? 0), m * 10 ^ Z.to_N (e - Z.min e 0), Z.min e 0).
Proof. exact (float_token bits). Qed.
Print Assumptions C14_float_token.
Example C14_float_token_example :      (* -3.141592653589793 and the smallest subnormal satisfy the premises *)
  (0xC00921FB54442D18 < 2 ^ 64 /\ f_isnan 0xC00921FB54442D18 = false /\ f_isinf 0xC00921FB54442D18 = false /\
   float_decimal 0xC00921FB54442D18 = Ok (3141592653589793, (-15)%Z)) /\
  (f_isnan 1 = false /\ f_isinf 1 = false /\ float_decimal 1 = Ok (5, (-324)%Z)).
Proof. vm_compute. repeat split. Qed.

Theorem C14_float_text_any_buffer (bits : N) (text : bytes) :
  bits < 2 ^ 64 -> float_text bits = Ok text ->
  forall (g : nat -> bytes) (b : buf), exists sp,
    AppendFloat64f g b bits = Ok {| bdata := bdata b ++ text; bspare := sp |}.
Proof. exact (float_text_any_buffer bits text). Qed.
Print Assumptions C14_float_text_any_buffer.
Example C14_float_text_example : float_text 0x3FB999999999999A = Ok (bs 3 0x302E31).   (* 0.1 *)
Proof. vm_compute. reflexivity. Qed.

(* NaN (every NaN bit pattern) is written as null *)
Theorem C14_nan_cell (bits : N) :
  f_isnan bits = true -> cell_json (CFloat bits) = Ok s_null /\ value_denotes s_null JNull.
Proof. intro H. cbn [cell_json]. rewrite H. split; [reflexivity|exact null_value_denotes]. Qed.
Print Assumptions C14_nan_cell.
Example C14_nan_cell_example : f_isnan f_nan = true /\ f_isnan 0xFFF0000000000001 = true.
Proof. vm_compute. split; reflexivity. Qed.

(* ---------------------------------------------------------------- C14_valid: the whole document of a frame
   frame_to_json f (Model/JsonRead.v) = ToJSON of the frame: abs f read row by row through the index, every
   cell rendered by the AppendByteStringAt of its column type, assembled by to_json (the function the
   strings engine executes).  For every frame without Err whose floats are finite or NaN (cell_ok) and whose
   logical table is defined (abs f = Ok t: index and enum ranks in range), ToJSON succeeds and the Coq JSON
   reader decodes the output (decode_doc = parse_doc + token values) to one object per row, in row order,
   with the sanitized column names as keys in column order, whose values are what the cells must denote
   (cell_value: ints exactly, floats the Ryu decimal with sign, NaN / null strings as null, strings as their
   sanitized code points, bools).  Duplicate or empty column names are allowed (objects are member lists). *)
Definition C14_valid_statement : Prop :=
  forall (f : frame) (t : table),
    ferr f = false -> abs f = Ok t -> Forall (Forall cell_ok) (trows t) ->
    exists out vals,
      frame_to_json f = Ok out /\
      omap (omap cell_value) (trows t) = Ok vals /\
      decode_doc out = Some (map (combine (map utf8_sanitize (tnames t))) vals).

Theorem C14_valid : C14_valid_statement.
Proof. exact frame_json_valid. Qed.
Print Assumptions C14_valid.

(* a frame with all five column types and a permuted index satisfies the premises *)
Definition C14_example_frame : frame := mkFrame
  [ (bs 1 0x69, ICol [5%Z; (-17)%Z; 0%Z]);
    (bs 1 0x66, FCol [0x3FB999999999999A; f_nan; 0x8000000000000000]);
    (bs 1 0x62, BCol [true; false; true]);
    (bs 1 0x73, SCol [None; Some (bs 2 0x6122); Some []]);
    (bs 1 0x65, ECol [0; 255; 1] [bs 1 0x78; bs 1 0x79] true) ]
  [2%nat; 0%nat; 1%nat] false.
Example C14_valid_frame_example :
  exists t, ferr C14_example_frame = false /\ abs C14_example_frame = Ok t /\ Forall (Forall cell_ok) (trows t).
Proof.
  eexists. split; [reflexivity|]. split; [vm_compute; reflexivity|].
  cbn [trows]. repeat (constructor; try exact I; try (split; reflexivity)).
Qed.

(* ---------------------------------------------------------------- C14_readback: ReadJSON inverts ToJSON
   read_json (Model/JsonRead.v) = qframe.ReadJSON(reader, ColumnOrder(names...), Enums(...)) on the value
   tree of the Coq JSON reader: encoding/json's decoding of each record into map[string]interface{} (later
   duplicate keys overwrite, numbers through strconv.ParseFloat = parse_float, strings as the UTF-8 of their
   code points), jsonRecordsToData (types detected from the FIRST record, fillFloats / fillBools /
   fillStrings), then qframe.New (Model/Ops.v new_frame, the function the frameops engine executes).

   For every frame without Err that is well formed, has at least one column and one row, distinct column
   names that are valid UTF-8 and legal (CheckName), and whose cells satisfy rb_ok:
     ints    parse_float reads the decimal text of z as int_to_float z   (int_to_float: any function);
     floats  finite, not NaN, and parse_float inverts the Ryu text of that float (the round trip of C16
             together with the correct rounding of strconv.ParseFloat: a PREMISE here, see below);
     strings and enum values valid UTF-8 (null allowed), bools anything,
   ReadJSON of the ToJSON output, with the original column order and every enum column declared with its
   value table (enum_conf), succeeds and its logical table has the same names, the same rows in the same
   order with every cell equal (rb_cell: int cells are the floats int_to_float z; float cells the identical
   bit pattern; bool, string, enum cells identical, null stays null), and the same types except int -> float.

   Premises a reader may find surprising (each is needed, see the report):
   * at least one row: a frame with columns and zero rows is written as [] and comes back as an error (the
     column order no longer matches) or, without ColumnOrder, as a frame WITHOUT columns;
   * valid UTF-8 in names and strings: an ill-formed byte comes back as U+FFFD (3 bytes), and two names that
     differ only in ill-formed bytes collide into one key;
   * no NaN in float columns: NaN is written as null; in the first row this turns the column into a string
     column, in a later row fillFloats rejects the document;
   * distinct names (the records are maps);
   * enum value tables without a repeated value (enum_tables_nodup, Proofs/EnumProofs.v): New rejects an Enums
     entry that lists a value twice (C17_duplicate_declaration_rejected); every enum column built by the factory
     has such a table (C17_table_nodup). *)
Definition C14_readback_statement : Prop :=
  forall (parse_float : bytes -> option N) (int_to_float : Z -> N) (f : frame) (t : table),
    ferr f = false -> wf_frame f = true -> abs f = Ok t ->
    cols f <> [] -> ix f <> [] ->
    NoDup (col_names f) -> Forall name_ok (col_names f) ->
    enum_tables_nodup f = true ->
    Forall (Forall (rb_ok parse_float int_to_float)) (trows t) ->
    exists out f',
      frame_to_json f = Ok out /\
      read_json parse_float out (col_names f) (enum_conf (cols f)) = Ok f' /\
      ferr f' = false /\
      abs f' = Ok (mkTable (tnames t) (map rb_type (ttypes t)) (map (map (rb_cell int_to_float)) (trows t))).

Theorem C14_readback : C14_readback_statement.
Proof. exact readback. Qed.
Print Assumptions C14_readback.

(* a frame with all five column types, a permuted index, and a ParseFloat given by a table satisfies the
   premises; the frame that comes back *)
Definition C14_example_frame2 : frame := mkFrame
  [ (bs 1 0x69, ICol [5%Z; (-17)%Z; 0%Z]);
    (bs 1 0x66, FCol [0x3FB999999999999A; 0xC00921FB54442D18; 0x8000000000000000]);
    (bs 1 0x62, BCol [true; false; true]);
    (bs 1 0x73, SCol [None; Some (bs 2 0x6122); Some []]);
    (bs 1 0x65, ECol [0; 255; 1] [bs 1 0x78; bs 1 0x79] true) ]
  [2%nat; 0%nat; 1%nat] false.
Definition C14_example_pf (text : bytes) : option N :=
  assocb text [ (bs 1 0x35, 0x4014000000000000); (bs 3 0x2D3137, 0xC031000000000000); (bs 1 0x30, 0);
                (bs 3 0x302E31, 0x3FB999999999999A); (bs 18 0x2D332E313431353932363533353839373933, 0xC00921FB54442D18);
                (bs 2 0x2D30, 0x8000000000000000) ].
Definition C14_example_i2f (z : Z) : N :=
  if (z =? 5)%Z then 0x4014000000000000 else if (z =? -17)%Z then 0xC031000000000000 else 0.
Example C14_readback_example :
  exists t, ferr C14_example_frame2 = false /\ wf_frame C14_example_frame2 = true /\
    abs C14_example_frame2 = Ok t /\ cols C14_example_frame2 <> [] /\ ix C14_example_frame2 <> [] /\
    NoDup (col_names C14_example_frame2) /\ Forall name_ok (col_names C14_example_frame2) /\
    enum_tables_nodup C14_example_frame2 = true /\
    Forall (Forall (rb_ok C14_example_pf C14_example_i2f)) (trows t).
Proof.
  eexists. split; [reflexivity|]. split; [vm_compute; reflexivity|]. split; [vm_compute; reflexivity|].
  split; [discriminate|]. split; [discriminate|].
  split; [repeat constructor; cbn [In]; intuition discriminate|].
  split; [repeat constructor|]. split; [vm_compute; reflexivity|].
  cbn [trows].
  repeat (constructor;
          try exact I; try reflexivity;
          try (split; [reflexivity|split; [reflexivity|split; [reflexivity|
                 let text := fresh in let H := fresh in intros text H; vm_compute in H; inversion H; reflexivity]]])).
Qed.
Example C14_readback_example_run :
  match frame_to_json C14_example_frame2 with
  | Ok out => read_json C14_example_pf out (col_names C14_example_frame2) (enum_conf (cols C14_example_frame2))
  | _ => Fail
  end
  = Ok (mkFrame
      [ (bs 1 0x69, FCol [0; 0x4014000000000000; 0xC031000000000000]);
        (bs 1 0x66, FCol [0x8000000000000000; 0x3FB999999999999A; 0xC00921FB54442D18]);
        (bs 1 0x62, BCol [true; true; false]);
        (bs 1 0x73, SCol [Some []; None; Some (bs 2 0x6122)]);
        (bs 1 0x65, ECol [1; 0; 255] [bs 1 0x78; bs 1 0x79] true) ]
      [0%nat; 1%nat; 2%nat] false).
Proof. vm_compute. reflexivity. Qed.

(* the premises are needed: zero rows lose the columns; a NaN in a later row is rejected *)
Example C14_readback_zero_rows :
  let f := mkFrame [(bs 1 0x61, ICol [1%Z])] [] false in
  match frame_to_json f with
  | Ok out => read_json C14_example_pf out (col_names f) []
  | _ => Fail
  end = Ok (mkFrame [] [] true).
Proof. vm_compute. reflexivity. Qed.
Example C14_readback_nan_rejected :
  let f := mkFrame [(bs 1 0x66, FCol [0x3FB999999999999A; f_nan])] [0%nat; 1%nat] false in
  match frame_to_json f with
  | Ok out => read_json C14_example_pf out (col_names f) []
  | _ => Fail
  end = Ok (mkFrame [] [] true).
Proof. vm_compute. reflexivity. Qed.

(* ---------------------------------------------------------------- what is NOT proved
   The float clause of rb_ok is a premise: parse_float (text Ryu wrote for b) = b.  It follows from
   (a) ryu_in_interval: the decimal of the Ryu model lies in the rounding interval of the float (part of
   C16_shortest_full_statement, Properties/C16.v, which is a Definition there) and (b) strconv.ParseFloat
   rounding correctly, specified with the interval test of the C16 certificate checker
   (Proofs/RyuShortest.v sc_in).  C14_full_statement below is the property text with (b) as the only
   premise about ParseFloat; it is proved from (a) (C14_full_from_ryu_interval_partial); (a) itself is
   NOT proved (the ryu engine certifies it on every sampled float). *)
(* parse_float_correct and ryu_in_interval are defined in Proofs/JsonDocProofs.v:
     parse_float_correct pf : a text denoting +-m * 10^k is read as the float in whose rounding interval
                              m * 10^k lies (sc_in), zero with its sign;
     ryu_in_interval        : for every bit pattern, the decimal float_decimal computes lies in the
                              rounding interval of that float (weaker than C16's shortestness). *)
Definition C14_full_statement : Prop :=
  C14_valid_statement /\
  forall (parse_float : bytes -> option N) (int_to_float : Z -> N) (f : frame) (t : table),
    parse_float_correct parse_float ->
    ferr f = false -> wf_frame f = true -> abs f = Ok t ->
    cols f <> [] -> ix f <> [] ->
    NoDup (col_names f) -> Forall name_ok (col_names f) ->
    enum_tables_nodup f = true ->
    Forall (Forall (fun c =>
              match c with
              | CInt z => parse_float (CsvWrite.itoa z) = Some (int_to_float z)
              | CFloat b => b < 2 ^ 64 /\ f_isnan b = false /\ f_isinf b = false
              | CStr (Some s) | CEnum (Some s) => utf8_valid s = true
              | _ => True
              end)) (trows t) ->
    exists out f',
      frame_to_json f = Ok out /\
      read_json parse_float out (col_names f) (enum_conf (cols f)) = Ok f' /\
      ferr f' = false /\
      abs f' = Ok (mkTable (tnames t) (map rb_type (ttypes t)) (map (map (rb_cell int_to_float)) (trows t))).

(* proved: the full statement follows from the single remaining obligation about the Ryu model *)
Theorem C14_full_from_ryu_interval_partial : ryu_in_interval -> C14_full_statement.
Proof.
  intro HR. split; [exact frame_json_valid|].
  intros pf i2f f t HP. exact (readback_from_spec pf i2f f t HP HR).
Qed.
Print Assumptions C14_full_from_ryu_interval_partial.
(* the premise is satisfiable on samples: the decimal of 0.1 and of the smallest subnormal lie in the interval *)
Example C14_ryu_interval_example :
  (exists fd, decode_float 0x3FB999999999999A = Some fd /\ float_decimal 0x3FB999999999999A = Ok (1, (-1)%Z) /\
              RyuShortest.sc_in fd (-1) 1 = true) /\
  (exists fd, decode_float 1 = Some fd /\ float_decimal 1 = Ok (5, (-324)%Z) /\
              RyuShortest.sc_in fd (-324) 5 = true).
Proof. split; eexists; (split; [vm_compute; reflexivity|]); split; vm_compute; reflexivity. Qed.

(* Also not covered: ReadJSON without ColumnOrder (columns come back sorted by name), documents that
   ToJSON does not write (white space, nested values: outside the Coq reader), and the correspondence of
   frame_to_json / read_json with the implementation is by composition of executed parts (to_json,
   append_quoted_string, AppendFloat64f, itoa, abs, new_frame), not by an engine case of their own. *)

(* ---------------------------------------------------------------- the frame-level engine families (wave 4)
   The strings engine now runs frame_to_json and read_json themselves against the implementation (families
   json-frame / json-read, Corr/StringsCorr.v check_jframe / check_jread: exact comparison = code 1) and,
   separately, decides C14's text on what the implementation returned with specification-level oracles
   (code 2) that do not call the model of the code under test:
     json_table_oracle t out   the Coq RFC 8259 reader decodes out to one object per row of the logical table t,
                               in row order, keys = sanitized column names in column order, and every value
                               denotes its cell (cell_denoted: ints by value; a float by a decimal inside the
                               rounding interval of that float, with its sign, zero as zero; NaN / null strings
                               as null; strings as their sanitized code points; bools);
     readback_oracle           when the source frame satisfies the decided premises of C14_readback
                               (rb_premises) the frame that came back has no Err and its logical table is the
                               source table with int cells replaced by the nearest float (int_to_float_spec).
   The theorems below say that these oracles are implied by C14_valid / C14_readback: on the model's own output
   they hold and the whole check returns 0.  Hence, in a case where the implementation agrees byte for byte with
   the model, code 2 can only be raised when a premise fails for that concrete input. *)
From QF Require Import Base.CaseLib Corr.StringsCorr Proofs.JsonCorrProofs.

(* the float test of the oracle is the interval test of the C16 certificate checker *)
Theorem C14_oracle_interval_is_sc_in (fd : fdec) (k : Z) (y : N) :
  in_round_interval fd k y = RyuShortest.sc_in fd k y.
Proof. exact (in_round_interval_sc_in fd k y). Qed.
Print Assumptions C14_oracle_interval_is_sc_in.

(* json-frame.  Premises: those of C14_valid, and for every float cell of the frame that the decimal of the
   Ryu model lies in the rounding interval of that float (ryu_ok b: C16's open statement asked of the floats
   of this frame only; a frame without finite non-zero floats needs nothing). *)
Theorem C14_frame_oracle_from_valid_partial (f : frame) (t : table) :
  ferr f = false -> abs f = Ok t ->
  Forall (Forall cell_ok) (trows t) -> Forall (Forall cell_ryu_ok) (trows t) ->
  exists out, frame_to_json f = Ok out /\ json_table_oracle t out = true /\ check_jframe f (Some out) = 0.
Proof. exact (frame_oracle_from_valid f t). Qed.
Print Assumptions C14_frame_oracle_from_valid_partial.

(* the five-type example frame of C14_valid satisfies the premises (0.1, NaN, -0 as floats) *)
Example C14_frame_oracle_example :
  exists t, ferr C14_example_frame = false /\ abs C14_example_frame = Ok t /\
            Forall (Forall cell_ok) (trows t) /\ Forall (Forall cell_ryu_ok) (trows t).
Proof.
  eexists. split; [reflexivity|]. split; [vm_compute; reflexivity|].
  split; cbn [trows].
  - repeat (constructor; try exact I; try (split; reflexivity)).
  - repeat (constructor; try exact I);
      intros fd m e DF ED; vm_compute in DF; vm_compute in ED;
      try discriminate; inversion DF; inversion ED; subst; vm_compute; reflexivity.
Qed.
(* and a document that differs from the model's in one float digit is rejected by the oracle *)
Example C14_frame_oracle_rejects :
  let f := mkFrame [(bs 1 0x66, FCol [0x3FB999999999999A])] [0%nat] false in
  check_jframe f (Some (bs 11 0x5B7B2266223A302E317D5D)) = 0 /\          (* [{"f":0.1}] *)
  check_jframe f (Some (bs 11 0x5B7B2266223A302E327D5D)) = 2 /\          (* [{"f":0.2}] *)
  check_jframe f (Some (bs 12 0x5B7B2266223A31652D317D5D)) = 1.          (* [{"f":1e-1}]: right value, other text *)
Proof. vm_compute. repeat split. Qed.

(* json-read.  Premises: those of C14_readback with parse_float := the ParseFloat table shipped with the case
   and int_to_float := int_to_float_spec (nearest float, ties to even). *)
Theorem C14_read_check_from_readback (tbl : list (bytes * option N)) (f : frame) (t : table) :
  ferr f = false -> wf_frame f = true -> abs f = Ok t ->
  cols f <> [] -> ix f <> [] ->
  NoDup (col_names f) -> Forall name_ok (col_names f) ->
  enum_tables_nodup f = true ->
  Forall (Forall (rb_ok (pf_of tbl) int_to_float_spec)) (trows t) ->
  exists out f',
    frame_to_json f = Ok out /\
    read_json (pf_of tbl) out (col_names f) (enum_conf (cols f)) = Ok f' /\
    readback_oracle (Some f) (col_names f) (enum_conf_of (cols f)) f' = true /\
    check_jread (Some f) out (col_names f) (enum_conf_of (cols f)) tbl f' = 0.
Proof. exact (read_check_from_readback tbl f t). Qed.
Print Assumptions C14_read_check_from_readback.

Definition C14_example_tbl : list (bytes * option N) :=
  [ (bs 1 0x35, Some 0x4014000000000000); (bs 3 0x2D3137, Some 0xC031000000000000); (bs 1 0x30, Some 0);
    (bs 3 0x302E31, Some 0x3FB999999999999A);
    (bs 18 0x2D332E313431353932363533353839373933, Some 0xC00921FB54442D18);
    (bs 2 0x2D30, Some 0x8000000000000000) ].
Example C14_read_check_example :
  exists t, ferr C14_example_frame2 = false /\ wf_frame C14_example_frame2 = true /\
    abs C14_example_frame2 = Ok t /\ cols C14_example_frame2 <> [] /\ ix C14_example_frame2 <> [] /\
    NoDup (col_names C14_example_frame2) /\ Forall name_ok (col_names C14_example_frame2) /\
    enum_tables_nodup C14_example_frame2 = true /\
    Forall (Forall (rb_ok (pf_of C14_example_tbl) int_to_float_spec)) (trows t) /\
    rb_premises C14_example_frame2 t = true.
Proof.
  eexists. split; [reflexivity|]. split; [vm_compute; reflexivity|]. split; [vm_compute; reflexivity|].
  split; [discriminate|]. split; [discriminate|].
  split; [repeat constructor; cbn [In]; intuition discriminate|].
  split; [repeat constructor|]. split; [vm_compute; reflexivity|].
  split; [|vm_compute; reflexivity].
  cbn [trows].
  repeat (constructor;
          try exact I; try reflexivity;
          try (split; [reflexivity|split; [reflexivity|split; [reflexivity|
                 let text := fresh in let H := fresh in intros text H; vm_compute in H; inversion H; reflexivity]]])).
Qed.

(* the decided premises of the oracle imply the corresponding premises of C14_readback *)
Theorem C14_rb_premises_sound (f : frame) (t : table) :
  rb_premises f t = true ->
  ferr f = false /\ wf_frame f = true /\ cols f <> [] /\ ix f <> [] /\
  Forall name_ok (col_names f) /\ enum_tables_nodup f = true.
Proof. exact (rb_premises_sound f t). Qed.
Print Assumptions C14_rb_premises_sound.

(* int_to_float_spec on samples: exact up to 2^53, ties to even above, the int64 extremes *)
Example C14_int_to_float_spec_samples :
  map int_to_float_spec [0; 1; -1; 5; -17; 9007199254740992; 9007199254740993; 9007199254740995;
                         9223372036854775807; -9223372036854775808]%Z
  = [0; 0x3FF0000000000000; 0xBFF0000000000000; 0x4014000000000000; 0xC031000000000000; 0x4340000000000000;
     0x4340000000000000; 0x4340000000000002; 0x43E0000000000000; 0xC3E0000000000000].
Proof. vm_compute. reflexivity. Qed.

(* ---------------------------------------------------------------- "int columns returning as equal-valued floats"
   C14_readback leaves int_to_float arbitrary (a premise per int cell says what ParseFloat returns).  Here it is
   made concrete: int_to_float_spec z (Corr/StringsCorr.v; the function the json-read oracle uses) is the float64
   nearest to z, ties to the even significand.
   * C14_int_parse_nearest: a ParseFloat that rounds correctly (parse_float_correct, the specification of
     strconv.ParseFloat used by C14_full_statement) reads the decimal text of EVERY z with |z| < 2^64 (hence
     every Go int) as int_to_float_spec z: z lies in the rounding interval of that float, on the boundary only
     when the significand is even.
   * C14_int_to_float_exact: for 0 < |z| < 2^53 that float is EQUAL to z (significand m2, exponent e2 + 2 <= 0,
     m2 = |z| * 2^-(e2+2)), with the sign of z. *)
Theorem C14_int_parse_nearest (pf : bytes -> option N) (z : Z) :
  parse_float_correct pf -> Z.abs_N z < 2 ^ 64 ->
  pf (CsvWrite.itoa z) = Some (int_to_float_spec z).
Proof. exact (int_parse_nearest pf z). Qed.
Print Assumptions C14_int_parse_nearest.

Theorem C14_int_to_float_exact (z : Z) :
  z <> 0%Z -> Z.abs_N z < 2 ^ 53 ->
  exists fd, decode_float (int_to_float_spec z) = Some fd /\
             (f_e2 fd + 2 <= 0)%Z /\ f_m2 fd = Z.abs_N z * 2 ^ Z.to_N (- (f_e2 fd + 2)) /\
             (2 ^ 63 <=? int_to_float_spec z) = (z <? 0)%Z.
Proof. exact (int_to_float_exact z). Qed.
Print Assumptions C14_int_to_float_exact.
Example C14_int_to_float_exact_example :      (* -17 = -(17 * 2^48) * 2^-48 *)
  (-17 <> 0)%Z /\ Z.abs_N (-17) < 2 ^ 53 /\
  decode_float (int_to_float_spec (-17)) = Some {| f_m2 := 17 * 2 ^ 48; f_e2 := (-50)%Z; f_lowgap := 2 |}.
Proof. split; [discriminate|]. split; vm_compute; reflexivity. Qed.

(* The property text with the int clause made concrete (stronger than C14_full_statement, whose int_to_float is
   any function constrained cell by cell): ints of 64 bits come back as the nearest float. *)
Definition C14_full_statement_ints : Prop :=
  C14_valid_statement /\
  forall (parse_float : bytes -> option N) (f : frame) (t : table),
    parse_float_correct parse_float ->
    ferr f = false -> wf_frame f = true -> abs f = Ok t ->
    cols f <> [] -> ix f <> [] ->
    NoDup (col_names f) -> Forall name_ok (col_names f) ->
    enum_tables_nodup f = true ->
    Forall (Forall (fun c =>
              match c with
              | CInt z => Z.abs_N z < 2 ^ 64
              | CFloat b => b < 2 ^ 64 /\ f_isnan b = false /\ f_isinf b = false
              | CStr (Some s) | CEnum (Some s) => utf8_valid s = true
              | _ => True
              end)) (trows t) ->
    exists out f',
      frame_to_json f = Ok out /\
      read_json parse_float out (col_names f) (enum_conf (cols f)) = Ok f' /\
      ferr f' = false /\
      abs f' = Ok (mkTable (tnames t) (map rb_type (ttypes t))
                           (map (map (rb_cell int_to_float_spec)) (trows t))).

(* proved from the single remaining obligation about the Ryu model (as C14_full_from_ryu_interval_partial) *)
Theorem C14_full_ints_from_ryu_interval_partial : ryu_in_interval -> C14_full_statement_ints.
Proof.
  intro HR. split; [exact frame_json_valid|].
  intros pf f t HP. exact (readback_from_spec_ints pf f t HP HR).
Qed.
Print Assumptions C14_full_ints_from_ryu_interval_partial.
(* the cell premises hold for the five-type example frame (ints 5, -17, 0) and for the int64 extremes *)
Example C14_full_ints_example :
  (exists t, abs C14_example_frame2 = Ok t /\
     Forall (Forall (fun c =>
              match c with
              | CInt z => Z.abs_N z < 2 ^ 64
              | CFloat b => b < 2 ^ 64 /\ f_isnan b = false /\ f_isinf b = false
              | CStr (Some s) | CEnum (Some s) => utf8_valid s = true
              | _ => True
              end)) (trows t)) /\
  Z.abs_N (-9223372036854775808) < 2 ^ 64 /\ Z.abs_N 9223372036854775807 < 2 ^ 64.
Proof.
  split; [|split; reflexivity].
  eexists. split; [vm_compute; reflexivity|]. cbn [trows].
  repeat (apply Forall_cons || apply Forall_nil); try exact I; try reflexivity;
    try (split; [reflexivity|split; reflexivity]).
Qed.

(* ---------------------------------------------------------------- ReadJSON without ColumnOrder
   (so far listed as not covered).  Without ColumnOrder New sorts the column names (sort.Strings, Model/Ops.v
   sort_names).  Under the premises of C14_readback, read_json with the EMPTY order and Enums(every enum column
   with its table) succeeds and reproduces the source frame with its columns re-selected in sorted name order:
   g = mkFrame (sort_cols (cols f)) (ix f) false, where sort_cols (Proofs/JsonCorrProofs.v) is sort_names carried
   out on the (name, column) pairs (C14_sort_cols_spec: same names as sort_names, a permutation of the columns).
   Its logical table tg is defined, has the sorted names, and the frame that comes back has exactly that table
   with rb_type / rb_cell applied (ints as int_to_float, everything else identical). *)
Theorem C14_sort_cols_spec (cs : list (bytes * coldata)) :
  map fst (sort_cols cs) = sort_names (map fst cs) /\ Permutation.Permutation (sort_cols cs) cs.
Proof. exact (conj (sort_cols_names cs) (sort_cols_perm cs)). Qed.
Print Assumptions C14_sort_cols_spec.

Definition C14_readback_noorder_statement : Prop :=
  forall (parse_float : bytes -> option N) (int_to_float : Z -> N) (f : frame) (t : table),
    ferr f = false -> wf_frame f = true -> abs f = Ok t ->
    cols f <> [] -> ix f <> [] ->
    NoDup (col_names f) -> Forall name_ok (col_names f) ->
    enum_tables_nodup f = true ->
    Forall (Forall (rb_ok parse_float int_to_float)) (trows t) ->
    exists out f' tg,
      frame_to_json f = Ok out /\
      read_json parse_float out [] (enum_conf (cols f)) = Ok f' /\
      ferr f' = false /\
      abs (mkFrame (sort_cols (cols f)) (ix f) false) = Ok tg /\
      tnames tg = sort_names (col_names f) /\
      abs f' = Ok (mkTable (tnames tg) (map rb_type (ttypes tg)) (map (map (rb_cell int_to_float)) (trows tg))).

Theorem C14_readback_noorder : C14_readback_noorder_statement.
Proof. exact readback_noorder. Qed.
Print Assumptions C14_readback_noorder.

(* the example frame of C14_readback (its premises: C14_readback_example) has the column names i f b s e; read
   without ColumnOrder it comes back with the columns b e f i s *)
Example C14_readback_noorder_example_run :
  match frame_to_json C14_example_frame2 with
  | Ok out => read_json C14_example_pf out [] (enum_conf (cols C14_example_frame2))
  | _ => Fail
  end
  = Ok (mkFrame
      [ (bs 1 0x62, BCol [true; true; false]);
        (bs 1 0x65, ECol [1; 0; 255] [bs 1 0x78; bs 1 0x79] true);
        (bs 1 0x66, FCol [0x8000000000000000; 0x3FB999999999999A; 0xC00921FB54442D18]);
        (bs 1 0x69, FCol [0; 0x4014000000000000; 0xC031000000000000]);
        (bs 1 0x73, SCol [Some []; None; Some (bs 2 0x6122)]) ]
      [0%nat; 1%nat; 2%nat] false)
  /\ map fst (sort_cols (cols C14_example_frame2)) = [bs 1 0x62; bs 1 0x65; bs 1 0x66; bs 1 0x69; bs 1 0x73].
Proof. vm_compute. split; reflexivity. Qed.

(* and with the premises about ParseFloat replaced by its specification and int_to_float made concrete (the
   no-ColumnOrder counterpart of C14_full_ints_from_ryu_interval_partial; cell premises: C14_full_ints_example) *)
Theorem C14_readback_noorder_from_ryu_interval_partial :
  ryu_in_interval ->
  forall (parse_float : bytes -> option N) (f : frame) (t : table),
    parse_float_correct parse_float ->
    ferr f = false -> wf_frame f = true -> abs f = Ok t ->
    cols f <> [] -> ix f <> [] ->
    NoDup (col_names f) -> Forall name_ok (col_names f) ->
    enum_tables_nodup f = true ->
    Forall (Forall (fun c =>
              match c with
              | CInt z => Z.abs_N z < 2 ^ 64
              | CFloat b => b < 2 ^ 64 /\ f_isnan b = false /\ f_isinf b = false
              | CStr (Some s) | CEnum (Some s) => utf8_valid s = true
              | _ => True
              end)) (trows t) ->
    exists out f' tg,
      frame_to_json f = Ok out /\
      read_json parse_float out [] (enum_conf (cols f)) = Ok f' /\
      ferr f' = false /\
      abs (mkFrame (sort_cols (cols f)) (ix f) false) = Ok tg /\
      tnames tg = sort_names (col_names f) /\
      abs f' = Ok (mkTable (tnames tg) (map rb_type (ttypes tg))
                           (map (map (rb_cell int_to_float_spec)) (trows tg))).
Proof. intros HR pf f t HP. exact (readback_noorder_from_spec pf f t HP HR). Qed.
Print Assumptions C14_readback_noorder_from_ryu_interval_partial.

(* ---------------------------------------------------------------- the Ryu premise is a theorem now
   ryu_in_interval is proved for every bit pattern (Proofs/RyuHandoverJson.v ryu_in_interval_holds, from C16's
   C16_float64ToDecimal_shortest / C16_exact_int_shortest), so the three statements above hold with the
   specification of strconv.ParseFloat (parse_float_correct: correct rounding) as the only assumption about
   floats left - a hypothesis about the standard library, stated inside each statement, not about qframe. *)
From QF Require Proofs.RyuHandoverJson.

Theorem C14_full : C14_full_statement.
Proof. exact (C14_full_from_ryu_interval_partial RyuHandoverJson.ryu_in_interval_holds). Qed.
Print Assumptions C14_full.

Theorem C14_full_ints : C14_full_statement_ints.
Proof. exact (C14_full_ints_from_ryu_interval_partial RyuHandoverJson.ryu_in_interval_holds). Qed.
Print Assumptions C14_full_ints.

Definition C14_readback_noorder_full :=
  C14_readback_noorder_from_ryu_interval_partial RyuHandoverJson.ryu_in_interval_holds.
Print Assumptions C14_readback_noorder_full.
