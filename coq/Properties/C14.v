(* Property C14 — ToJSON emits valid JSON that denotes the frame.
   Part proved here: the hand written string escaper (values and column names) for EVERY byte string,
   and the record assembly over abstract cell renderings.  Statements only; proofs are in
   Proofs/JsonProofs.v.  The specification (RFC 8259 string reader json_parse_string, RFC 3629
   character reader, document reader) is the second half of Model/Json.v. *)
From QF Require Import Base.Prelude Model.Utf8 Model.Json Proofs.Utf8Proofs Proofs.JsonProofs.
Local Open Scope N_scope.

(* AppendQuotedString on an empty buffer: for every byte string s (no premise at all) the output is
   accepted by the RFC 8259 string reader, nothing is left over, and the code points read are the
   input with every ill-formed byte replaced by U+FFFD (on valid UTF-8: the input itself). *)
Theorem C14_escape_valid (s : bytes) :
  exists out, append_quoted_string [] s = Ok out /\
              json_parse_string out = Some (utf8_sanitize s, []).
Proof. exact (escape_valid s). Qed.
Print Assumptions C14_escape_valid.

(* What is already in the buffer is kept and has no influence on what is appended. *)
Theorem C14_escape_prefix_independent (buf s : bytes) :
  exists out, append_quoted_string [] s = Ok out /\ append_quoted_string buf s = Ok (buf ++ out).
Proof. exact (escape_prefix_independent buf s). Qed.
Print Assumptions C14_escape_prefix_independent.

(* Column names go through QuotedBytes. *)
Theorem C14_quoted_bytes_valid (s : bytes) :
  exists out, quoted_bytes s = Ok out /\ json_parse_string out = Some (utf8_sanitize s, []).
Proof. exact (quoted_bytes_valid s). Qed.
Print Assumptions C14_quoted_bytes_valid.

(* On valid UTF-8 the sanitized string is the string: encoding the code points gives the bytes back. *)
Theorem C14_sanitize_identity_on_valid (s : bytes) :
  utf8_valid s = true -> utf8_encode (map Z.of_N (utf8_sanitize s)) = s.
Proof. exact (encode_decode_id s). Qed.
Print Assumptions C14_sanitize_identity_on_valid.

(* a concrete input satisfying the premise: a, quote, backslash, LF, U+2028, e-acute, U+1F600 *)
Example C14_valid_example :
  utf8_valid (bs 13 0x61225C0AE280A8C3A9F09F9880) = true.
Proof. vm_compute. reflexivity. Qed.

(* a concrete run: quote, backslash, control, truncated sequence, U+2028 *)
Example C14_escape_example :
  append_quoted_string [] (bs 8 0x225C01E282E280A8)
  = Ok (bs 30 0x225C225C5C5C75303030315C75666666645C75666666645C753230323822).
Proof. vm_compute. reflexivity. Qed.

(* The reader stops right after the closing quotation mark, whatever follows (used for keys and values
   inside a document). *)
Theorem C14_escape_valid_tail (s tl : bytes) :
  exists out, append_quoted_string [] s = Ok out /\
              json_parse_string (out ++ tl) = Some (utf8_sanitize s, tl).
Proof. exact (escape_valid_tail s tl). Qed.
Print Assumptions C14_escape_valid_tail.

(* ---------------------------------------------------------------- document level (record assembly)
   For every list of column names and every list of rows of cell renderings (no premise: rows of the
   wrong length are cut like the Go loop over qf.columns would), ToJSON never fails and writes exactly
     [ obj , obj ... ]     obj = { qname : cell , qname : cell ... }
   with qname = QuotedBytes(name): the hand placed commas and the trailing-comma trim are right, zero
   rows give [] and zero columns give {} per row. *)
Theorem C14_to_json_shape (names : list bytes) (rows : list (list bytes)) :
  exists qnames, omap quoted_bytes names = Ok qnames /\ length qnames = length names /\
                 to_json names rows = Ok (doc_text qnames rows).
Proof. exact (to_json_shape names rows). Qed.
Print Assumptions C14_to_json_shape.

Example C14_to_json_zero_rows : to_json [bs 1 0x61] [] = Ok (bs 2 0x5B5D).
Proof. vm_compute. reflexivity. Qed.
Example C14_to_json_zero_columns_shape : doc_text [] [[]; []] = bs 7 0x5B7B7D2C7B7D5D.
Proof. vm_compute. reflexivity. Qed.

(* The document reads back: for all column names (any bytes) and all rows whose cells denote tokens
   (value_denotes cell t: followed by , or } the value reader parse_value reads t and stops there),
   ToJSON succeeds and the document reader parse_doc (RFC 8259 subset without whitespace, Model/Json.v)
   returns one object per row, in row order, keys = sanitized column names in column order. *)
Theorem C14_to_json_document (names : list bytes) (rows : list (list bytes)) (toks : list (list jtoken)) :
  Forall2 (fun cells ts => length cells = length names /\ Forall2 value_denotes cells ts) rows toks ->
  exists out, to_json names rows = Ok out /\
              parse_doc out = Some (map (combine (map utf8_sanitize names)) toks).
Proof. exact (to_json_document names rows toks). Qed.
Print Assumptions C14_to_json_document.

(* the cells the column renderers produce denote tokens: strings (through AppendQuotedString), null,
   true, false.  Number cells (ints, floats): value_denotes is a premise to be discharged by the models
   of the number formatters (C16); json_number in Model/Json.v is the grammar they must satisfy. *)
Theorem C14_string_cell (s out : bytes) :
  append_quoted_string [] s = Ok out -> value_denotes out (JStr (utf8_sanitize s)).
Proof. exact (string_value_denotes s out). Qed.
Theorem C14_null_cell : value_denotes (bs 4 0x6E756C6C) JNull.
Proof. exact null_value_denotes. Qed.
Theorem C14_true_cell : value_denotes (bs 4 0x74727565) (JBool true).
Proof. exact true_value_denotes. Qed.
Theorem C14_false_cell : value_denotes (bs 5 0x66616C7365) (JBool false).
Proof. exact false_value_denotes. Qed.
Print Assumptions C14_string_cell.

(* a concrete frame satisfying the premise: one column named a-quote-b, rows: null and the string x *)
Example C14_document_example :
  let names := [bs 3 0x612262] in
  let rows := [[bs 4 0x6E756C6C]; [bs 3 0x227822]] in
  let toks := [[JNull]; [JStr [0x78]]] in
  Forall2 (fun cells ts => length cells = length names /\ Forall2 value_denotes cells ts) rows toks /\
  to_json names rows = Ok (bs 28 0x5B7B22615C2262223A6E756C6C7D2C7B22615C2262223A2278227D5D).
Proof.
  cbv zeta. split; [|vm_compute; reflexivity].
  constructor; [split; [reflexivity|constructor; [exact null_value_denotes|constructor]]|].
  constructor; [|constructor]. split; [reflexivity|]. constructor; [|constructor].
  apply (string_value_denotes [0x78]). vm_compute. reflexivity.
Qed.

(* NOT PROVED here: that integer / float renderings satisfy value_denotes (the number formatters are
   other work packages), and the ReadJSON half of C14. *)
