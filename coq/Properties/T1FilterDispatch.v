(* Tie T1 for the column-level filter dispatch (properties C02, C17, C18, C10) — not one of the 19 properties,
   compiled with them.  Gen/GenFilterDispatch.v is produced by tools/qf2coq/filterdisp.go from the Go text of
   QFrame.filter (qframe.go), of the Filter / filterBuiltIn methods of the five column types
   (internal/{i,f,b,s,e}column/column.go) and of their helpers (intComp, newIntSet, interfaceSliceToIntSlice,
   FloatSlice, equalTypes, InterfaceSliceToStringSlice, isOrderComparator), statement by statement.  Every theorem
   below says: the definition generated from the Go source equals the hand-written model function of
   Model/Filter.v that the proofs of the properties and the frameops engine use — for all inputs.  An edit of one
   of these Go functions changes the generated text at the next run and the theorem of that function stops
   compiling.

   Reading aid.  The generated code is abstract in its vocabulary; Proofs/GenFilterDispatchProofs.v (header)
   instantiates it with the model.  The loop kernels are the boundary: the entry `name` of a comparator table,
   called, is the model's run of the generated kernel of that name (Gen/GenKernels.v).  col_go / arg_go / rarg_go /
   cmp_go / leaf_go give the Go value of a model column / argument / comparator / leaf; res_go b r is the answer
   (error, final mask) of a Filter method: (nil, mask) for Ok mask, (error, b — the mask untouched) for Fail,
   Panic for Panic.  f2i is int(x) on float64: ANY function, the premise rarg_ok f2i says that the int(x) the
   model records next to every float argument is its value.  Fuel: only newIntSet is recursive (two levels);
   the statements that reach it hold for every fuel >= 2. *)
From QF Require Import Base.Prelude Gen.GenFilterClause Gen.GenFilterDispatch.
From QF Require Import Model.Frame Model.Filter Model.FilterSpec Proofs.FilterProofs Proofs.FilterTypedLeaf Proofs.FilterTypedFrame.
From QF Require Import Proofs.GenFilterClauseProofs Proofs.GenFilterDispatchProofs.
Local Open Scope Z_scope.

(* ------------------------------------------------------------------ icolumn *)

Theorem T1_filterdisp_intComp (f2i : N -> Z) (a : farg) : arg_ok f2i a ->
  gd_i_intComp f2i i2f (arg_go a) = Ok (match int_comp a with Some z => (z, true) | None => (0, false) end).
Proof. exact (gd_i_intComp_eq f2i a). Qed.
Print Assumptions T1_filterdisp_intComp.
Example T1_filterdisp_intComp_example : arg_ok (fun _ => 3) (AFloat 0x4008000000000000 3).
Proof. reflexivity. Qed.

Theorem T1_filterdisp_interfaceSliceToIntSlice (f2i : N -> Z) (l : list farg) : arg_ok f2i (AIfaces l) ->
  gd_i_interfaceSliceToIntSlice f2i (map arg_go l)
  = Ok (match iface_ints l with Some r => (r, true) | None => ([], false) end).
Proof. exact (gd_i_ifaceInts_eq f2i l). Qed.
Print Assumptions T1_filterdisp_interfaceSliceToIntSlice.

(* fuel relation: 2 <= fuel *)
Theorem T1_filterdisp_newIntSet (f2i : N -> Z) (fuel : nat) (a : farg) : (2 <= fuel)%nat -> arg_ok f2i a ->
  gd_i_newIntSet f2i fuel (arg_go a) = Ok (match int_set a with Some s => (s, true) | None => ([], false) end).
Proof. exact (gd_i_newIntSet_eq f2i fuel a). Qed.
Print Assumptions T1_filterdisp_newIntSet.
Example T1_filterdisp_newIntSet_example :
  (2 <= 2)%nat /\ arg_ok (fun _ => 3) (AIfaces [AInt 5; AFloat 0x4008000000000000 3])
  /\ gd_i_newIntSet (fun _ : N => 3) 2 (arg_go (AIfaces [AInt 5; AFloat 0x4008000000000000 3])) = Ok ([5; 3], true).
Proof. repeat split; try lia. Qed.

Theorem T1_filterdisp_int_filterBuiltIn (f2i : N -> Z) fuel d index cmp (a : rarg) b : (2 <= fuel)%nat -> rarg_ok f2i a ->
  gd_i_Column_filterBuiltIn m_new_error f2i i2f m_i1 m_iN m_i2 m_i0 fuel d index cmp (rarg_go a) b
  = res_go b (i_filter_builtin d index cmp a b).
Proof. exact (gd_i_builtin_eq f2i fuel d index cmp a b). Qed.
Print Assumptions T1_filterdisp_int_filterBuiltIn.

(* Column.Filter of icolumn = the model's leaf step on an int column: every comparator (built in name, func(int)
   bool, func(int, int) bool, anything else), every argument, index and mask *)
Theorem T1_filterdisp_int_Filter (f2i : N -> Z) mt fuel d index (cmp : fcmp) (a : rarg) b :
  (2 <= fuel)%nat -> rarg_ok f2i a ->
  gd_i_Column_Filter m_new_error f2i i2f m_i1 m_iN m_i2 m_i0 (fun d => m_c1 (ICol d)) (fun d => m_c2 (ICol d) other_i)
    fuel d index (cmp_go cmp) (rarg_go a) b
  = res_go b (col_filter mt (ICol d) index cmp a b).
Proof. exact (gd_i_Filter_eq f2i mt fuel d index cmp a b). Qed.
Print Assumptions T1_filterdisp_int_Filter.
Example T1_filterdisp_int_Filter_example :
  (2 <= 2)%nat /\ rarg_ok (fun _ => 0) (RConst (AInt 5))
  /\ gd_i_Column_Filter m_new_error (fun _ => 0) i2f m_i1 m_iN m_i2 m_i0 (fun d => m_c1 (ICol d)) (fun d => m_c2 (ICol d) other_i)
       2%nat [3; -1; 7; 7; 0] [4%nat; 0%nat; 3%nat] (cmp_go (CmpName (bs 1 0x3e))) (rarg_go (RConst (AInt 5))) [false; true; false]
     = Ok (None, [false; true; true]).
Proof. split; [lia|split; [exact I|vm_compute; reflexivity]]. Qed.

(* ------------------------------------------------------------------ fcolumn, bcolumn, scolumn (no fuel, no premise) *)

Theorem T1_filterdisp_FloatSlice (d : list Z) : gd_i_Column_FloatSlice i2f d = Ok (float_slice d).
Proof. exact (gd_FloatSlice_eq d). Qed.
Print Assumptions T1_filterdisp_FloatSlice.

Theorem T1_filterdisp_float_Filter mt d index (cmp : fcmp) (a : rarg) b :
  gd_f_Column_Filter m_new_error f_isnan m_f0 m_f1 m_f2 (fun d => m_c1 (FCol d)) (fun d => m_c2 (FCol d) other_f)
    d index (cmp_go cmp) (rarg_go a) b
  = res_go b (col_filter mt (FCol d) index cmp a b).
Proof. exact (gd_f_Filter_eq mt d index cmp a b). Qed.
Print Assumptions T1_filterdisp_float_Filter.

Theorem T1_filterdisp_bool_Filter mt d index (cmp : fcmp) (a : rarg) b :
  gd_b_Column_Filter m_new_error m_b1 m_b2 (fun d => m_c1 (BCol d)) (fun d => m_c2 (BCol d) other_b)
    d index (cmp_go cmp) (rarg_go a) b
  = res_go b (col_filter mt (BCol d) index cmp a b).
Proof. exact (gd_b_Filter_eq mt d index cmp a b). Qed.
Print Assumptions T1_filterdisp_bool_Filter.

(* qfstrings.InterfaceSliceToStringSlice = the model's norm_strs *)
Theorem T1_filterdisp_InterfaceSliceToStringSlice (c : farg) :
  gd_InterfaceSliceToStringSlice (arg_go c) = Ok (arg_go (norm_strs c)).
Proof. exact (gd_ifaceStrs_eq c). Qed.
Print Assumptions T1_filterdisp_InterfaceSliceToStringSlice.

(* Column.Filter of scolumn; like / ilike: the entry of filterFuncs1 builds the matcher first (m_s1) *)
Theorem T1_filterdisp_string_Filter mt d index (cmp : fcmp) (a : rarg) b :
  gd_s_Column_Filter m_new_error (fun l => l) m_s0 (m_s1 mt) m_sN m_s2 (fun d => m_c1 (SCol d)) (fun d => m_c2 (SCol d) other_s)
    d index (cmp_go cmp) (rarg_go a) b
  = res_go b (col_filter mt (SCol d) index cmp a b).
Proof. exact (gd_s_Filter_eq mt d index cmp a b). Qed.
Print Assumptions T1_filterdisp_string_Filter.

(* ------------------------------------------------------------------ the interface and QFrame.filter *)

(* x.Filter(..) through column.Column.  col_ok c: c is not an enum column (first version; with enum columns:
   T1_filterdisp_Column_Filter_all below) *)
Theorem T1_filterdisp_Column_Filter f2i mt c fuel index (cmp : fcmp) (a : rarg) b :
  col_ok c -> (2 <= fuel)%nat -> rarg_ok f2i a ->
  g_Column_Filter f2i mt fuel (col_go c) index (cmp_go cmp) (rarg_go a) b = res_go b (col_filter mt c index cmp a b).
Proof. exact (g_Column_Filter_eq f2i mt c fuel index cmp a b). Qed.
Print Assumptions T1_filterdisp_Column_Filter.
Example T1_filterdisp_Column_Filter_example :
  col_ok (SCol [Some [97%N]; None]) /\ (2 <= 2)%nat /\ rarg_ok (fun _ => 0) (RConst (AStr [97%N])).
Proof. repeat split; lia. Qed.

(* a method call on the nil interface panics *)
Theorem T1_filterdisp_Column_Filter_nil f2i mt fuel index cmp a b :
  g_Column_Filter f2i mt fuel gd_col_nil index cmp a b = Panic.
Proof. exact (g_Column_Filter_nil f2i mt fuel index cmp a b). Qed.
Print Assumptions T1_filterdisp_Column_Filter_nil.

(* the second mask of an inverted leaf *)
Theorem T1_filterdisp_second_mask (b inv : list bool) : length inv = length b ->
  gd_QFrame_filter_loop1 b 0 b inv
  = Ok (map (fun xy : bool * bool => if fst xy then true else negb (snd xy)) (combine b inv)).
Proof. intro H. exact (gd_filter_loop1_eq b inv [] [] b eq_refl H eq_refl). Qed.
Print Assumptions T1_filterdisp_second_mask.
Example T1_filterdisp_second_mask_example : length [true; false] = length [false; false].
Proof. reflexivity. Qed.

(* Filter keeps the length of the mask (what makes the second mask line up) *)
Theorem T1_filterdisp_mask_length mt c index cmp a b r : col_filter mt c index cmp a b = Ok r -> length r = length b.
Proof. exact (col_filter_len mt c index cmp a b r). Qed.
Print Assumptions T1_filterdisp_mask_length.
Example T1_filterdisp_mask_length_example :
  col_filter [] (ICol [1; 2]) [1%nat; 0%nat] (CmpName (bs 1 0x3e)) (RConst (AInt 1)) [false; false] = Ok [true; false].
Proof. vm_compute. reflexivity. Qed.

(* QFrame.filter = the model's filter_leaves: the bool index, the loop over the filters, the column look-ups and
   their errors, the int<->float promotion, Inverse through filter.Inverse or a second mask, the Err exit,
   index.Filter.  Premises: no enum column in the frame (frame_cols_ok), the recorded int(x) of float arguments. *)
Theorem T1_filterdisp_leaves f2i mt fuel f ls : (2 <= fuel)%nat -> frame_cols_ok f ->
  Forall (fun l => arg_ok f2i (larg l)) ls ->
  g_QFrame_filter f2i mt fuel f (map leaf_go ls) = filter_leaves mt f ls.
Proof. exact (g_QFrame_filter_eq f2i mt fuel f ls). Qed.
Print Assumptions T1_filterdisp_leaves.

Definition ex_frame : frame :=
  mkFrame [([65%N], ICol [3; -1; 7; 7; 0]); ([66%N], FCol [0x4008000000000000; 0; 0x7FF8000000000001; 0x4014000000000000; 0]%N)]
          [4%nat; 0%nat; 3%nat; 1%nat] false.
Definition ex_leaves : list leaf :=
  [mkLeaf [65%N] (CmpName (bs 1 0x3e)) (AColName [66%N]) true; mkLeaf [65%N] (CmpName (bs 1 0x3d)) (AInt (-1)) false].
Example T1_filterdisp_leaves_example :
  (2 <= 2)%nat /\ Forall (fun l => arg_ok (fun _ => 0) (larg l)) ex_leaves
  /\ g_QFrame_filter (fun _ => 0) [] 2 ex_frame (map leaf_go ex_leaves) = Ok (with_ix ex_frame [4%nat; 0%nat; 1%nat])
  /\ filter_leaves [] ex_frame ex_leaves = Ok (with_ix ex_frame [4%nat; 0%nat; 1%nat]).
Proof. split; [lia|]. split; [repeat constructor|]. split; vm_compute; reflexivity. Qed.
Example T1_filterdisp_leaves_example_cols : frame_cols_ok ex_frame.
Proof.
  intros n c H. destruct (lookup_col_in _ _ _ H) as [m Hin]. cbn in Hin.
  destruct Hin as [E|[E|[]]]; inversion E; exact I.
Qed.

(* composition with the clause level (Properties/T1Filter.v): T1_filter_dispatch says that the generated
   c.filter(qf) equals clause_filter when its column-level argument qf.filter is filter_leaves mt; by
   T1_filterdisp_leaves that argument is the translated QFrame.filter on every call that meets the premises.
   One C02 leaf theorem (C02_leaf_ok) restated on the translated text: *)
Theorem T1_filterdisp_C02_leaf_ok f2i mt fuel f (l : leaf) (s : nat -> bool) (i : list nat) (p0 : nat) :
  (2 <= fuel)%nat -> frame_cols_ok (with_ix f i) -> arg_ok f2i (larg l) -> ferr f = false -> frame_ok f ->
  (forall p, p = p0 \/ In p i -> (p < phys_len f)%nat /\ leaf_sat mt f l p = Ok (Some (Some (s p)))) ->
  g_QFrame_filter f2i mt fuel (with_ix f i) [leaf_go l]
  = do r <- index_filter i (mask_or (map (fun _ => false) i) (map s i)); Ok (with_ix (with_ix f i) r).
Proof. exact (g_QFrame_filter_leaf f2i mt fuel f l s i p0). Qed.
Print Assumptions T1_filterdisp_C02_leaf_ok.

(* ------------------------------------------------------------------ ecolumn: examples (the theorems follow) *)

Definition ex_enum : coldata := ECol [0; 1; 255; 1]%N [[97%N]; [98%N]] true.
Example T1_filterdisp_enum_examples :
  let run cmp a b := g_Column_Filter (fun _ => 0) [(([97%N; 37%N], true), Some [([97%N], true); ([98%N], false)])] 2
                       (col_go ex_enum) [0%nat; 1%nat; 2%nat; 3%nat] (cmp_go cmp) (rarg_go a) b in
  let model cmp a b := res_go b (col_filter [(([97%N; 37%N], true), Some [([97%N], true); ([98%N], false)])] ex_enum
                       [0%nat; 1%nat; 2%nat; 3%nat] cmp a b) in
  let b0 := [false; false; false; false] in
  run (CmpName (bs 1 0x3d)) (RConst (AStr [98%N])) b0 = model (CmpName (bs 1 0x3d)) (RConst (AStr [98%N])) b0
  /\ run (CmpName (bs 1 0x3d)) (RConst (AStr [99%N])) b0 = Ok (Some tt, b0)                (* undeclared constant, strict *)
  /\ run (CmpName (bs 1 0x3d)) (RConst (AStr [99%N])) b0 = model (CmpName (bs 1 0x3d)) (RConst (AStr [99%N])) b0
  /\ run (CmpName (bs 1 0x3c)) (RConst (AStr [98%N])) b0 = model (CmpName (bs 1 0x3c)) (RConst (AStr [98%N])) b0
  /\ run (CmpName (bs 4 0x6c696b65)) (RConst (AStr [97%N; 37%N])) b0 = model (CmpName (bs 4 0x6c696b65)) (RConst (AStr [97%N; 37%N])) b0
  /\ run (CmpName (bs 2 0x696e)) (RConst (AStrs [[98%N]])) b0 = model (CmpName (bs 2 0x696e)) (RConst (AStrs [[98%N]])) b0
  /\ run (CmpName (bs 6 0x69736e756c6c)) (RConst ANil) b0 = model (CmpName (bs 6 0x69736e756c6c)) (RConst ANil) b0
  /\ run (CmpName (bs 1 0x3d)) (RCol ex_enum) b0 = model (CmpName (bs 1 0x3d)) (RCol ex_enum) b0
  /\ run (CmpName (bs 1 0x3d)) (RCol (ECol [0]%N [[97%N]] true)) b0 = Ok (Some tt, b0).    (* enums of different types *)
Proof. cbv zeta. repeat split; vm_compute; reflexivity. Qed.

(* ------------------------------------------------------------------ ecolumn *)

Theorem T1_filterdisp_equalTypes d vs st d2 vs2 st2 :
  gd_e_equalTypes d vs st d2 vs2 st2 = Ok (equal_types vs (length d) vs2 (length d2)).
Proof. exact (gd_e_equalTypes_eq d vs st d2 vs2 st2). Qed.
Print Assumptions T1_filterdisp_equalTypes.

(* Column.filterBuiltIn of ecolumn: the search for the constant among the values and the call with enumVal(i),
   the undeclared constant (error in strict mode, no row / every row for != otherwise), like / ilike / in through
   the bitset builders (boundary entries) and filterWithBitset, equalTypes for a column argument.
   Premise: the value list fits the uint8 rank (enumVal(i) wraps at 256; the factory stops at 255) *)
Theorem T1_filterdisp_enum_filterBuiltIn mt d vs st index cmp (a : rarg) b : (length vs <= 256)%nat ->
  g_e_filterBuiltIn mt d vs st index cmp (rarg_go a) b = res_go b (e_filter_builtin mt d vs st index cmp a b).
Proof. exact (gd_e_builtin_eq mt d vs st index cmp a b). Qed.
Print Assumptions T1_filterdisp_enum_filterBuiltIn.

Theorem T1_filterdisp_enum_Filter mt d vs st index (cmp : fcmp) (a : rarg) b : (length vs <= 256)%nat ->
  gd_e_Column_Filter m_new_error m_propagate (fun l => l) m_e0 m_e1 m_e2 (m_eLike mt) m_eIn
    (fun d vs st => m_c1 (ECol d vs st)) (fun d vs st => m_c2 (ECol d vs st) other_e) m_eBitset
    d vs st index (cmp_go cmp) (rarg_go a) b
  = res_go b (col_filter mt (ECol d vs st) index cmp a b).
Proof. exact (gd_e_Filter_eq mt d vs st index cmp a b). Qed.
Print Assumptions T1_filterdisp_enum_Filter.
Example T1_filterdisp_enum_Filter_example : (length [[97%N]; [98%N]] <= 256)%nat.
Proof. cbn. lia. Qed.

(* the interface dispatch for all five column types *)
Theorem T1_filterdisp_Column_Filter_all f2i mt c fuel index (cmp : fcmp) (a : rarg) b :
  col_okE c -> (2 <= fuel)%nat -> rarg_ok f2i a ->
  g_Column_Filter f2i mt fuel (col_go c) index (cmp_go cmp) (rarg_go a) b = res_go b (col_filter mt c index cmp a b).
Proof. exact (g_Column_Filter_eqE f2i mt c fuel index cmp a b). Qed.
Print Assumptions T1_filterdisp_Column_Filter_all.
Example T1_filterdisp_Column_Filter_all_example :
  col_okE ex_enum /\ (2 <= 2)%nat /\ rarg_ok (fun _ => 0) (RConst (AStr [98%N])).
Proof. repeat split; cbn; lia. Qed.

(* QFrame.filter = filter_leaves for every frame whose enum columns have at most 256 values *)
Theorem T1_filterdisp_leaves_all f2i mt fuel f ls : (2 <= fuel)%nat -> frame_cols_okE f ->
  Forall (fun l => arg_ok f2i (larg l)) ls ->
  g_QFrame_filter f2i mt fuel f (map leaf_go ls) = filter_leaves mt f ls.
Proof. exact (g_QFrame_filter_eqE f2i mt fuel f ls). Qed.
Print Assumptions T1_filterdisp_leaves_all.

(* the premise follows from well-formedness *)
Theorem T1_filterdisp_wf_cols f : wf_frame f = true -> frame_cols_okE f.
Proof. exact (wf_frame_cols_okE f). Qed.
Print Assumptions T1_filterdisp_wf_cols.

Definition ex_eframe : frame := mkFrame [([67%N], ex_enum); ([65%N], ICol [3; -1; 7; 7])] [3%nat; 0%nat; 1%nat] false.
Example T1_filterdisp_leaves_all_example :
  let ls := [mkLeaf [67%N] (CmpName (bs 1 0x3c)) (AStr [98%N]) true; mkLeaf [65%N] (CmpName (bs 1 0x3d)) (AInt 3) false] in
  wf_frame ex_eframe = true /\ (2 <= 2)%nat /\ Forall (fun l => arg_ok (fun _ => 0) (larg l)) ls
  /\ g_QFrame_filter (fun _ => 0) [] 2 ex_eframe (map leaf_go ls) = Ok (with_ix ex_eframe [3%nat; 0%nat; 1%nat])
  /\ filter_leaves [] ex_eframe ls = Ok (with_ix ex_eframe [3%nat; 0%nat; 1%nat]).
Proof. cbv zeta. split; [reflexivity|]. split; [lia|]. split; [repeat constructor|]. split; vm_compute; reflexivity. Qed.

(* ------------------------------------------------------------------ one statement from the clause tree to the kernel call *)

(* filtering never touches the columns (the invariant of the composition) *)
Theorem T1_filterdisp_columns_unchanged mt c g r : clause_filter mt c g = Ok r -> cols r = cols g.
Proof. exact (clause_filter_cols mt c g r). Qed.
Print Assumptions T1_filterdisp_columns_unchanged.
Example T1_filterdisp_columns_unchanged_example :
  clause_filter [] (CNot (CLeaf (mkLeaf [65%N] (CmpName (bs 1 0x3d)) (AInt 3) false))) ex_eframe = Ok (with_ix ex_eframe [3%nat; 1%nat]).
Proof. vm_compute. reflexivity. Qed.

(* extensionality of the generated clause dispatcher in its column level qf.filter: a column level q1 that agrees
   with filter_leaves on every frame with the columns of f0 and on leaf lists satisfying Q (Q stable under
   f.Inverse = b) gives the same c.filter(qf) on every such frame, for every clause whose leaves satisfy Q *)
Theorem T1_filterdisp_clause_ext mt (q1 : frame -> list leaf -> outcome frame) (f0 : frame) (Q : leaf -> Prop) :
  (forall l b, Q l -> Q (m_setInverse l b)) ->
  (forall g ls, cols g = cols f0 -> Forall Q ls -> q1 g ls = filter_leaves mt g ls) ->
  forall c, Forall Q (clause_leaves c) -> forall g, cols g = cols f0 ->
  gc_FilterClause_filter Nat.eqb m_Err ix m_withErr with_ix q1 linv m_setInverse (embed c) g
  = gc_FilterClause_filter Nat.eqb m_Err ix m_withErr with_ix (filter_leaves mt) linv m_setInverse (embed c) g.
Proof. exact (gc_filter_ext mt q1 f0 Q). Qed.
Print Assumptions T1_filterdisp_clause_ext.

(* THE COMPOSITION: the generated QFrame.Filter (GenFilterClause.v) over the generated QFrame.filter
   (GenFilterDispatch.v) = the model's frame_filter, for every frame and every clause tree.  Premises: fuel for
   newIntSet, at most 256 values per enum column, the recorded int(x) of the float arguments of the leaves *)
Theorem T1_filterdisp_QFrame_Filter f2i mt fuel f (c : clause) : (2 <= fuel)%nat -> frame_cols_okE f ->
  Forall (fun l => arg_ok f2i (larg l)) (clause_leaves c) ->
  g_QFrame_Filter f2i mt fuel f (embed c) = frame_filter mt f c.
Proof. exact (g_QFrame_Filter_eq' f2i mt fuel f c). Qed.
Print Assumptions T1_filterdisp_QFrame_Filter.

Definition ex_eclause : clause :=
  COr [CLeaf (mkLeaf [67%N] (CmpName (bs 1 0x3d)) (AStr [97%N]) false); CLeaf (mkLeaf [65%N] (CmpName (bs 1 0x3e)) (AFloat 0x4014000000000000 5) false);
       CNot (CAnd [CLeaf (mkLeaf [65%N] (CmpName (bs 1 0x3c)) (AInt 5) false); CNull])].
Example T1_filterdisp_QFrame_Filter_example :
  (2 <= 2)%nat /\ Forall (fun l => arg_ok (fun _ => 5) (larg l)) (clause_leaves ex_eclause)
  /\ g_QFrame_Filter (fun _ => 5) [] 2 ex_eframe (embed ex_eclause) = Ok (with_ix ex_eframe [3%nat; 0%nat])
  /\ frame_filter [] ex_eframe ex_eclause = Ok (with_ix ex_eframe [3%nat; 0%nat]).
Proof. split; [lia|]. split; [repeat constructor|]. split; vm_compute; reflexivity. Qed.

(* C02_filter (the frame theorem of C02) on the translated text *)
Definition T1_filterdisp_C02_filter_statement : Prop := g_C02_statement.
Theorem T1_filterdisp_C02_filter : T1_filterdisp_C02_filter_statement.
Proof. exact g_C02. Qed.
Print Assumptions T1_filterdisp_C02_filter.
Example T1_filterdisp_C02_filter_example :
  c02_premises_b [] ex_eframe ex_eclause = true /\ ix ex_eframe <> []
  /\ filter_spec [] ex_eframe ex_eclause = VRows [3%nat; 0%nat].
Proof. repeat split; try discriminate; vm_compute; reflexivity. Qed.

(* C17_filter_undeclared and C17_frame_filter_undeclared on the translated text *)
Theorem T1_filterdisp_C17_filter_undeclared mt d vals strict cmp op s index b :
  (length vals <= 256)%nat -> cop_of cmp = Some op -> ~ In s vals ->
  g_e_filterBuiltIn mt d vals strict index cmp (gd_any_string s) b
  = if strict then Ok (Some tt, b)
    else Ok (None, if match op with ONe => true | _ => false end then map (fun _ => true) b else b).
Proof. exact (g_e_filter_undeclared mt d vals strict cmp op s index b). Qed.
Print Assumptions T1_filterdisp_C17_filter_undeclared.

Theorem T1_filterdisp_C17_frame_filter_undeclared f2i mt fuel (f : frame) col d vals cmp op s :
  (2 <= fuel)%nat -> frame_cols_okE f ->
  ferr f = false -> lookup_col f col = Some (ECol d vals true) -> cop_of cmp = Some op -> ~ In s vals ->
  g_QFrame_Filter f2i mt fuel f (embed (CLeaf (mkLeaf col (CmpName cmp) (AStr s) false))) = Ok (with_err f).
Proof. exact (g_frame_filter_undeclared f2i mt fuel f col d vals cmp op s). Qed.
Print Assumptions T1_filterdisp_C17_frame_filter_undeclared.
Example T1_filterdisp_C17_undeclared_example :
  (length [[97%N]; [98%N]] <= 256)%nat /\ cop_of (bs 1 0x3d) = Some OEq /\ ~ In [99%N] [[97%N]; [98%N]]
  /\ ferr ex_eframe = false /\ lookup_col ex_eframe [67%N] = Some ex_enum
  /\ g_QFrame_Filter (fun _ => 0) [] 2 ex_eframe (embed (CLeaf (mkLeaf [67%N] (CmpName (bs 1 0x3d)) (AStr [99%N]) false)))
     = Ok (with_err ex_eframe).
Proof.
  split; [cbn; lia|]. split; [reflexivity|]. split; [intros [H|[H|[]]]; discriminate|].
  split; [reflexivity|]. split; vm_compute; reflexivity.
Qed.
