(* Property C15 — I/O failures are reported, never swallowed or turned into partial data.
   Models: Model/IOFault.v (readers, writers, CSV / JSON entry points) and Model/Sql.v (SQL entry points).
   Every theorem is for EVERY fault position and every document / frame; the field scanner, the JSON
   scanner and the post-processing are universally quantified parameters. *)
From Coq Require Import String.
From QF Require Import Base.Prelude Model.Sql Model.IOFault Corr.IOCorr Proofs.SqlProofs Proofs.IOFaultProofs.

(* ---- ReadCSV: the reader delivers the first k bytes of the document (k = 0 .. len(doc), and beyond:
   firstn k doc = doc then) in reads of at most [chunk] bytes and then fails, the error possibly coming
   together with the last bytes.  For every field scanner [sc], delimiter, post-processing [post],
   configuration and fuel: the result is never an error-free frame (Ok n = frame with n rows, Err = nil).
   Note: this includes k = len(doc): ReadCSV has to see io.EOF to know that the input is complete. *)
Theorem C15_read_csv (sc : scanner) (delim : N) (post : list bytes -> nat -> bool)
        (fuel rfuel mfuel : nat) (conf : csv_conf) (doc : bytes) (k chunk : nat) (wd : bool) (n : nat) :
  read_csv sc delim post fuel rfuel mfuel conf (mkReader (firstn k doc) chunk RFault wd) <> Ok n.
Proof. exact (read_csv_faulty sc delim post fuel rfuel mfuel conf (mkReader (firstn k doc) chunk RFault wd) n eq_refl). Qed.
Print Assumptions C15_read_csv.

(* the same for any reader whose terminal event is a failure, whatever it delivered before *)
Theorem C15_read_csv_any_reader (sc : scanner) (delim : N) (post : list bytes -> nat -> bool)
        (fuel rfuel mfuel : nat) (conf : csv_conf) (r : reader) (n : nat) :
  r_term r = RFault -> read_csv sc delim post fuel rfuel mfuel conf r <> Ok n.
Proof. exact (read_csv_faulty sc delim post fuel rfuel mfuel conf r n). Qed.
Print Assumptions C15_read_csv_any_reader.

(* total form (no panic): for a field scanner that makes progress (every field it reports ends inside the
   buffer, behind the cursor: scanner_ok), a reader obeying the io.Reader contract (chunk >= 1) and fuel
   above the number of bytes delivered, the model does not run out of fuel or index outside the buffer
   either: the result is exactly Err. *)
Theorem C15_read_csv_total (sc : scanner) (delim : N) (post : list bytes -> nat -> bool)
        (fuel rfuel mfuel : nat) (conf : csv_conf) (doc : bytes) (k chunk : nat) (wd : bool) :
  scanner_ok sc -> (1 <= chunk)%nat -> (k < fuel)%nat -> (k < rfuel)%nat -> (k < mfuel)%nat ->
  read_csv sc delim post fuel rfuel mfuel conf (mkReader (firstn k doc) chunk RFault wd) = Fail.
Proof. exact (read_csv_fault_fails_doc sc delim post fuel rfuel mfuel conf doc k chunk wd). Qed.
Print Assumptions C15_read_csv_total.

(* the scanner instance of the correspondence engine satisfies the premise *)
Theorem C15_read_csv_total_premise : scanner_ok simple_scanner.
Proof. exact simple_scanner_ok. Qed.
Print Assumptions C15_read_csv_total_premise.

(* non-vacuity: without a fault the same model does return frames *)
Example C15_read_csv_fault_free :
  read_csv simple_scanner 44 simple_post 100 100 100 (mkCsvConf [] false)
           (mkReader (str "a,b
1,2
3,4
") 1 REOF false) = Ok 2%nat.
Proof. vm_compute. reflexivity. Qed.

(* ---- ReadJSON: [js_need js s doc 0 = Some m]: the scanner automaton [js] reports the end of the
   top-level value at byte m of the document (for an array: its closing bracket).  If the reader fails
   at an offset k < m, Decode returns an error, for every automaton, chunking, fuel and post-processing.
   (A failure at k >= m is never seen by ReadJSON: the decoder stops reading at the end of the value.) *)
Theorem C15_read_json {S : Type} (js : jscanner S) (post : bytes -> option nat)
        (fuel : nat) (doc : bytes) (k chunk : nat) (wd : bool) (m v : nat) :
  js_need js (js_init js) doc 0 = Some m -> (k < m)%nat ->
  read_json js post fuel doc (mkReader (firstn k doc) chunk RFault wd) <> Ok v.
Proof. exact (read_json_faulty js post fuel doc k chunk wd m v). Qed.
Print Assumptions C15_read_json.

(* total form: a reader obeying the io.Reader contract (at least one byte per successful Read: chunk >= 1)
   and k + 2 refills of fuel: the model does not panic either, the result is Err *)
Theorem C15_read_json_total {S : Type} (js : jscanner S) (post : bytes -> option nat)
        (fuel : nat) (doc : bytes) (k chunk : nat) (wd : bool) (m : nat) :
  js_need js (js_init js) doc 0 = Some m -> (k < m)%nat -> (1 <= chunk)%nat -> (k + 1 < fuel)%nat ->
  read_json js post fuel doc (mkReader (firstn k doc) chunk RFault wd) = Fail.
Proof. exact (read_json_fault_fails js post fuel doc k chunk wd m). Qed.
Print Assumptions C15_read_json_total.

Example C15_read_json_premise :
  js_need simple_js (js_init simple_js) (str "[{""a"":1},{""a"":2}]
") 0 = Some 17%nat
  /\ read_json simple_js (fun _ => Some 2%nat) 10 (str "[{""a"":1},{""a"":2}]
") (mkReader (str "[{""a"":1},{""a"":2}]
") 3 REOF false) = Ok 2%nat.
Proof. split; vm_compute; reflexivity. Qed.

(* ---- ToCSV on a writer that accepts k bytes and then fails, through bufio.Writer (4096 byte buffer,
   sticky error) and csv.Writer (Write per record, Flush, Error): for every header / list of records
   (each an arbitrary sequence of WriteByte / WriteString calls), every k, plain writer or StringWriter:
   the call never panics, and it returns an error exactly when the output does not fit, i.e.
     k < len(output)  ->  error, exactly the first k bytes were accepted;
     k >= len(output) ->  no error and the writer received the complete output.
   Outputs below and above 4096 bytes are both covered by the quantifier. *)
Theorem C15_write_csv (k : nat) (header : option (list wop)) (rows : list (list wop)) (sw : bool) :
  exists got err,
    to_csv header rows (mkFW k [] sw) = Ok (got, err) /\
    ((k < length (csv_output header rows))%nat /\ err = true /\ got = firstn k (csv_output header rows)
     \/ (length (csv_output header rows) <= k)%nat /\ err = false /\ got = csv_output header rows).
Proof. exact (to_csv_result k header rows sw). Qed.
Print Assumptions C15_write_csv.

(* csv_output is the concatenation of all bytes handed to the csv.Writer *)
Example C15_csv_output_example :
  csv_output (Some [WStr (str "a"); WByte 44; WStr (str "b"); WByte 10]) [[WStr (str "1"); WByte 44; WStr (str "2"); WByte 10]]
  = str "a,b
1,2
".
Proof. vm_compute. reflexivity. Qed.

(* ---- ToJSON: "[" ; one Write per record ; "]" *)
Theorem C15_write_json (k : nat) (records : list bytes) (sw : bool) :
  let '(got, err) := to_json records (mkFW k [] sw) in
  (k < length (json_output records))%nat /\ err = true /\ got = firstn k (json_output records)
  \/ (length (json_output records) <= k)%nat /\ err = false /\ got = json_output records.
Proof. exact (to_json_result k records sw). Qed.
Print Assumptions C15_write_json.

(* ---- ReadSQL: the driver fails at Prepare, at Query, or Rows.Next fails instead of delivering row j
   (j = number of rows: instead of reporting the end of the result set): never a frame. *)
Theorem C15_sql_read_prepare fixed pf conf rs q r :
  read_sql fixed pf conf rs (mkFaults true q r) = Fail.
Proof. exact (read_sql_prepare_fault fixed pf conf rs q r). Qed.
Print Assumptions C15_sql_read_prepare.

Theorem C15_sql_read_query fixed pf conf rs p r :
  read_sql fixed pf conf rs (mkFaults p true r) = Fail.
Proof. exact (read_sql_query_fault fixed pf conf rs p r). Qed.
Print Assumptions C15_sql_read_query.

Theorem C15_sql_read_row fixed pf conf rs p q (j : nat) res :
  (j <= length (rs_rows rs))%nat ->
  read_sql fixed pf conf rs (mkFaults p q (Some j)) <> Ok res.
Proof. exact (read_sql_row_fault fixed pf conf rs p q j res). Qed.
Print Assumptions C15_sql_read_row.

(* a value Column.Scan does not accept (Scan fails) anywhere in the result set: never a frame *)
Theorem C15_sql_read_scan fixed pf conf rs row res :
  q_coerce conf = None -> In row (rs_rows rs) -> In DOther row ->
  read_sql fixed pf conf rs no_faults <> Ok res.
Proof. exact (read_sql_scan_fault fixed pf conf rs row res). Qed.
Print Assumptions C15_sql_read_scan.

(* without coercions (a NULL in a coerced column makes the Go code panic, see C19) the model's result
   under these faults is exactly Err: no panic *)
Theorem C15_sql_read_row_total fixed pf conf rs p q (j : nat) :
  q_coerce conf = None -> (j <= length (rs_rows rs))%nat ->
  read_sql fixed pf conf rs (mkFaults p q (Some j)) = Fail.
Proof. exact (read_sql_row_fault_fails fixed pf conf rs p q j). Qed.
Print Assumptions C15_sql_read_row_total.

Theorem C15_sql_read_scan_total fixed pf conf rs row :
  q_coerce conf = None -> In row (rs_rows rs) -> In DOther row ->
  read_sql fixed pf conf rs no_faults = Fail.
Proof. exact (read_sql_scan_fault_fails fixed pf conf rs row). Qed.
Print Assumptions C15_sql_read_scan_total.

Theorem C15_sql_read_never_panics fixed pf conf rs flt :
  q_coerce conf = None -> read_sql fixed pf conf rs flt <> Panic.
Proof. exact (read_sql_no_panic fixed pf conf rs flt). Qed.
Print Assumptions C15_sql_read_never_panics.

(* ---- ToSQL: Exec number k is refused: an error is returned, exactly the statements 0..k reached the
   driver (k being the refused one), none after it. *)
Theorem C15_sql_write (f : frame) (conf : sql_config) (rows : list (list dval)) (k : nat) :
  spec_rows f = Some rows -> (k < length (findex f))%nat ->
  to_sql f conf (fun i => negb (Nat.eqb i k))
  = (firstn (S k) (map (fun r => (insert_text (map fst (fcols f)) conf, r)) rows), SErr).
Proof. exact (to_sql_exec_fault f conf rows k). Qed.
Print Assumptions C15_sql_write.

(* Scope of the "never panics" part: the theorems above show that the *modelled control flow* reaches
   Err (and nothing else) under every fault.  Run-time panics inside the real field scanner (slice
   indexing in internal/fastcsv) or inside encoding/json are outside this coarse model: they are the
   subject of the detailed scanner model (Model/FastCsv.v) and are observed directly by engine
   "iofault", which runs every injection under recover. *)
