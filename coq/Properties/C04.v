(* Property C04 — GroupBy partitions the rows by key (the hash table part: internal/grouper/grouper.go,
   the per-type Hash/Compare methods).  Statements only; proofs in Proofs/Grouper*.v.

   Reading of the premises:
   * [per_on eqb ids]: key equality is symmetric and transitive on the rows of the index — NOT reflexive:
     under groupby.Null(false) a row with a null key is not equal to itself and ends up in a group of its own.
   * [hash_respects eqb hash ids]: rows with equal keys have the same 64 bit hash; [hash] is otherwise
     ARBITRARY (the model truncates it to 32 bits itself), so every collision pattern, every probe chain
     and every growth timing is covered.  C04_hash_respects_eq shows that the per-type Hash methods meet
     this premise for every function memhash.
   * [N.of_nat (length ids) <= 2^30]: grow computes the new length in uint32; with more than 2^30 groups
     the doubled length would wrap to 0 and the Go code would index an empty slice. *)
From QF Require Import Base.Prelude Model.Grouper.
From QF Require Import Proofs.GrouperProofs Proofs.GrouperInv Proofs.GrouperMain Proofs.GrouperCheck Proofs.GrouperHash.
Local Open Scope N_scope.

(* 1a. the fuel lemma: a table of 2^k slots with at least one unoccupied slot is probed successfully
   within [length es] steps from any start slot, whatever test is made on occupied slots *)
Theorem C04_probe_fuel {A : Type} (stop : entry A -> bool) (es : list (option (entry A))) (k start c : N) :
  N.of_nat (length es) = 2 ^ k ->
  (length (occ es) < length es)%nat ->
  start < 2 ^ k ->
  exists d, (d < length es)%nat /\
    probe stop (length es) es (2 ^ k - 1) start c = Ok (posn (2 ^ k) start d, c + N.of_nat d) /\
    (forall d', (d' < d)%nat ->
       exists e, nth_error es (posn (2 ^ k) start d') = Some (Some e) /\ stop e = false) /\
    (nth_error es (posn (2 ^ k) start d) = Some None \/
     exists e, nth_error es (posn (2 ^ k) start d) = Some (Some e) /\ stop e = true).
Proof. exact (probe_total stop es k start c). Qed.
Print Assumptions C04_probe_fuel.

(* 1b. groupIndex never faults and its table satisfies the invariant [tinv] (Proofs/GrouperInv.v):
   length = 2^k with k >= 3; every entry reachable from its home slot without crossing an unoccupied
   slot; groupCount = number of occupied slots; loadFactor = groupCount/len; 2*groupCount <= len + 2;
   stored hash = truncated hash of firstPos; first members pairwise unequal; the members of the
   entries are a permutation of the index, each in index order *)
Theorem C04_table_invariant {A : Type} (eqb : A -> A -> bool) (hash : A -> N) (ids : list A) :
  NoDup ids -> per_on eqb ids -> hash_respects eqb hash ids -> N.of_nat (length ids) <= 2 ^ 30 ->
  exists t, group_index eqb hash true ids = Ok t /\ tinv eqb hash t ids.
Proof. exact (group_index_inv eqb hash ids). Qed.
Print Assumptions C04_table_invariant.

(* 2. GroupBy never panics and returns a partition of the index by key equality: the groups together are
   a permutation of the index, every group is non-empty and keeps the index order, two rows share a group
   iff they are the same row or have equal keys *)
Theorem C04_partition (eqb : nat -> nat -> bool) (hash : nat -> N) (ids : list nat) :
  NoDup ids -> per_on eqb ids -> hash_respects eqb hash ids -> N.of_nat (length ids) <= 2 ^ 30 ->
  exists gs, group_ids eqb hash ids = Ok gs /\ partition_ok eqb ids gs.
Proof. exact (group_ids_partition eqb hash ids). Qed.
Print Assumptions C04_partition.

(* the same for any type of row ids (the instance the correspondence engine evaluates) *)
Theorem C04_partition_gen {A : Type} (eqb : A -> A -> bool) (hash : A -> N) (ids : list A) :
  NoDup ids -> per_on eqb ids -> hash_respects eqb hash ids -> N.of_nat (length ids) <= 2 ^ 30 ->
  exists gs, group_ids_gen eqb hash ids = Ok gs /\ partition_ok eqb ids gs.
Proof. exact (group_ids_partition eqb hash ids). Qed.
Print Assumptions C04_partition_gen.

(* 4. the per-type Hash methods respect the per-type Compare methods, for every memhash and whatever
   rand.Uint64() returns: keys that are Equal in every column fold to the same hash *)
Theorem C04_hash_respects_eq (memhash : bytes -> N -> N) (nulleq : bool) (rnd1 rnd2 : nat -> N)
        (a b : list cell) (col : nat) (seed : N) :
  Forall cell_wf a -> Forall cell_wf b -> key_equal nulleq a b = true ->
  key_hash_from memhash nulleq rnd1 col seed a = key_hash_from memhash nulleq rnd2 col seed b.
Proof. exact (key_equal_hash memhash nulleq rnd1 rnd2 a b col seed). Qed.
Print Assumptions C04_hash_respects_eq.

(* ... per column: Equal cells hand the same bytes to memhash and never take the random branch *)
Theorem C04_cell_hash_input (nulleq : bool) (a b : cell) :
  cell_wf a -> cell_wf b -> cell_equal nulleq a b = true ->
  exists bs, hash_input nulleq a = Some bs /\ hash_input nulleq b = Some bs.
Proof. exact (cell_equal_hash_input nulleq a b). Qed.
Print Assumptions C04_cell_hash_input.

(* ... and the random branch (null key under Null(false)) is sound because such a cell is Equal to
   nothing, not even to itself *)
Theorem C04_random_hash_never_equal (nulleq : bool) (a : cell) :
  hash_input nulleq a = None ->
  forall b, cell_equal nulleq a b = false /\ cell_equal nulleq b a = false.
Proof. exact (random_hash_never_equal nulleq a). Qed.
Print Assumptions C04_random_hash_never_equal.

(* 2 + 4: GroupBy on a frame given by its key cells, any memhash, any random source *)
Theorem C04_frame (cells : nat -> list cell) (nulleq : bool) (memhash : bytes -> N -> N)
        (rnd : nat -> nat -> N) (ids : list nat) :
  NoDup ids -> (forall i, In i ids -> Forall cell_wf (cells i)) -> N.of_nat (length ids) <= 2 ^ 30 ->
  exists gs, group_ids (frame_eqb cells nulleq) (frame_hash cells nulleq memhash rnd) ids = Ok gs /\
             partition_ok (frame_eqb cells nulleq) ids gs.
Proof.
  exact (fun ND W B => group_ids_partition _ _ ids ND (frame_per cells nulleq ids)
                         (frame_hash_respects cells nulleq memhash rnd ids W) B).
Qed.
Print Assumptions C04_frame.

(* 5. the checker applied to the implementation's output decides the specification predicate *)
Theorem C04_partition_b_correct {A : Type} (aeq eqb : A -> A -> bool) (ids : list A) (gs : list (list A)) :
  (forall x y, aeq x y = true <-> x = y) -> NoDup ids -> per_on eqb ids ->
  (partition_b aeq eqb ids gs = true <-> partition_ok eqb ids gs).
Proof.
  exact (fun Haeq ND Hper => conj (partition_b_sound aeq eqb Haeq ids gs ND Hper)
                                  (partition_b_complete aeq eqb Haeq ids gs ND)).
Qed.
Print Assumptions C04_partition_b_correct.

(* ---------------------------------------------------------------- the premises are satisfiable *)

(* six rows, keys 0 1 2 0 1 2 where key 2 is "null, equal to nothing"; every row hashes to 2^32 + 5,
   i.e. all collide after truncation *)
Definition ex_eqb (a b : nat) : bool := (Nat.eqb (a mod 3) (b mod 3) && Nat.ltb (a mod 3) 2)%bool.
Definition ex_hash (a : nat) : N := 4294967301.
Definition ex_ids : list nat := [5; 0; 4; 3; 2; 1]%nat.

Example C04_example_premises :
  NoDup ex_ids /\ per_on ex_eqb ex_ids /\ hash_respects ex_eqb ex_hash ex_ids /\
  N.of_nat (length ex_ids) <= 2 ^ 30.
Proof.
  split; [|split; [|split]].
  - repeat constructor; simpl; intuition discriminate.
  - split.
    + intros a b Ha Hb. simpl in Ha, Hb.
      repeat (destruct Ha as [<-|Ha]; [repeat (destruct Hb as [<-|Hb]; [vm_compute; auto|]); contradiction|]).
      contradiction.
    + intros a b c Ha Hb Hc. simpl in Ha, Hb, Hc.
      repeat (destruct Ha as [<-|Ha];
              [repeat (destruct Hb as [<-|Hb];
                       [repeat (destruct Hc as [<-|Hc]; [vm_compute; auto|]); contradiction|]);
               contradiction|]).
      contradiction.
  - intros a b _ _ _. reflexivity.
  - vm_compute. discriminate.
Qed.

Example C04_example_run :
  group_ids ex_eqb ex_hash ex_ids = Ok [[2]; [5]; [0; 3]; [4; 1]]%nat.   (* probing wrapped around to slot 0 *)
Proof. vm_compute. reflexivity. Qed.

(* float keys: +0 / -0 and two NaN payloads under Null(true) *)
Definition ex_cells (i : nat) : list cell :=
  match i with
  | 0%nat => [CFloat 0]
  | 1%nat => [CFloat 0x8000000000000000]
  | 2%nat => [CFloat 0x7FF8000000000001]
  | _ => [CFloat 0xFFF8000000000000]
  end.
Example C04_example_frame :
  group_ids (frame_eqb ex_cells true)
            (frame_hash ex_cells true (fun b s => fold_left N.add b s) (fun _ _ => 0))
            [0; 1; 2; 3]%nat = Ok [[0; 1]; [2; 3]]%nat.
Proof. vm_compute. reflexivity. Qed.

(* the checker accepts the model's grouping of the first example and rejects two wrong ones: rows 0 and 3
   (equal keys) split, and the null-keyed rows 5 and 2 merged *)
Example C04_example_checker :
  partition_b Nat.eqb ex_eqb ex_ids [[2]; [5]; [0; 3]; [4; 1]]%nat = true /\
  partition_b Nat.eqb ex_eqb ex_ids [[2]; [5]; [0]; [3]; [4; 1]]%nat = false /\
  partition_b Nat.eqb ex_eqb ex_ids [[5; 2]; [0; 3]; [4; 1]]%nat = false.
Proof. vm_compute. auto. Qed.

(* equal hash input does not imply Equal: null and "\x00" under Null(true) (a harmless collision) *)
Example C04_example_null_vs_nul_byte :
  hash_input true (CStr None) = hash_input true (CStr (Some [0])) /\
  cell_equal true (CStr None) (CStr (Some [0])) = false.
Proof. exact null_string_collides_with_nul_byte. Qed.

(* ================================================================================================
   The frame level: QFrame.GroupBy, Grouper.Aggregate, Grouper.QFrames (Model/Aggregate.v; proofs in
   Proofs/AggregateProofs.v).  From here on [cell], [ix], ... are those of Model/Frame.v.

   Reading of the statements:
   * [grouper] = (columns of the frame, grouping column names, groups = lists of positions, error flag).
   * [key_value g first n x]: x is the cell of column n at position [first];
     [agg_value ft g grp a x]: x is the group size for "count", otherwise the function that the column's type
     resolves a.Fn to (built-in by name or user function; [resolve_fn]) applied to exactly the cells of column
     a.Column at the positions of grp, in grp's order (enum cells are handed over as strings).
   * Built-ins of int and bool columns and float max / min are concrete (C04_sum / C04_max / C04_min /
     C04_majority / C04_float_max / C04_float_min); float sum / avg are an oracle table [ft] and user functions
     are finite tables: a missing entry would be a model fault, which [tables_complete] excludes (it holds
     outright for "count" and the int/bool built-ins: C04_concrete_tables_complete).
   * [frame_ok f]: no error, columns of equal physical length with valid enum ranks, index duplicate-free, inside
     the columns and at most 2^30 long. *)
From QF Require Import Model.Frame Model.Filter Model.Ops Model.Aggregate Proofs.AggregateProofs.

(* 6. Aggregate: one row per group, in group order, named keys ++ aggregation names; row k holds the key cells of
   the FIRST row of group k followed by one value per aggregation *)
Theorem C04_aggregate (ft : float_table) (g : grouper) (aggs : list aggregation) (out : frame) :
  gerr g = false -> aggregate ft g aggs = Ok out -> ferr out = false ->
  col_names out = gkeys g ++ map agg_name aggs /\
  ix out = seq 0 (length (gindices g)) /\
  forall t, abs out = Ok t ->
    length (trows t) = length (gindices g) /\
    forall k grp, nth_error (gindices g) k = Some grp ->
      exists first keycells aggcells,
        hd_error grp = Some first /\
        nth_error (trows t) k = Some (keycells ++ aggcells) /\
        Forall2 (key_value g first) (gkeys g) keycells /\
        Forall2 (agg_value ft g grp) aggs aggcells.
Proof. exact (aggregate_rows ft g aggs out). Qed.
Print Assumptions C04_aggregate.

(* 7. ... it reports an error exactly when some aggregation names an unknown column, or a result name that is a
   grouping column or the result name of an earlier aggregation, or (unless "count") a function that the
   column's type does not accept; an error of the Grouper is passed on *)
Theorem C04_aggregate_errors (ft : float_table) (g : grouper) (aggs : list aggregation) (out : frame) :
  gerr g = false -> aggregate ft g aggs = Ok out ->
  (ferr out = true <->
   exists i a, nth_error aggs i = Some a /\
               agg_invalid g (gkeys g ++ map agg_name (firstn i aggs)) a = true).
Proof. exact (aggregate_err_iff ft g aggs out). Qed.
Print Assumptions C04_aggregate_errors.

Theorem C04_aggregate_sticky (ft : float_table) (g : grouper) (aggs : list aggregation) :
  gerr g = true -> aggregate ft g aggs = Ok err_frame.
Proof. exact (aggregate_sticky ft g aggs). Qed.
Print Assumptions C04_aggregate_sticky.

(* 8. ... and it never faults on a well-formed Grouper, and every row of its result can be read *)
Theorem C04_aggregate_total (ft : float_table) (g : grouper) (aggs : list aggregation) :
  grouper_wf g -> tables_complete ft g aggs ->
  exists out, aggregate ft g aggs = Ok out /\ (ferr out = false -> exists t, abs out = Ok t).
Proof. exact (aggregate_total ft g aggs). Qed.
Print Assumptions C04_aggregate_total.

(* ... whereas a Grouper with an empty group (GroupBy never builds one: C04_partition) makes it panic (ix[0]) *)
Theorem C04_aggregate_empty_group (ft : float_table) (g : grouper) (aggs : list aggregation) :
  gerr g = false -> In [] (gindices g) -> aggregate ft g aggs = Panic.
Proof. exact (aggregate_empty_group ft g aggs). Qed.
Print Assumptions C04_aggregate_empty_group.

Theorem C04_concrete_tables_complete (ft : float_table) (g : grouper) (aggs : list aggregation) :
  grouper_wf g ->
  (forall a, In a aggs -> exists n, agfn a = GName n /\
     forall c, lookup_col (gframe g) (acol a) = Some c -> col_type c <> TFloat) ->
  tables_complete ft g aggs.
Proof. exact (concrete_tables_complete ft g aggs). Qed.
Print Assumptions C04_concrete_tables_complete.

(* 9. the built-ins of int and bool columns *)
Theorem C04_sum (ft : float_table) (g : grouper) (grp : list nat) (a : aggregation) (d : list Z) (x : cell) :
  lookup_col (gframe g) (acol a) = Some (ICol d) -> agfn a = GName name_sum -> agg_value ft g grp a x ->
  exists zs, omap (idx d) grp = Ok zs /\ x = CInt (wrap64 (fold_right Z.add 0%Z zs)).
Proof. exact (agg_value_int_sum ft g grp a d x). Qed.
Print Assumptions C04_sum.

Theorem C04_max (ft : float_table) (g : grouper) (grp : list nat) (a : aggregation) (d : list Z) (x : cell) :
  lookup_col (gframe g) (acol a) = Some (ICol d) -> agfn a = GName name_max -> agg_value ft g grp a x ->
  exists zs m, omap (idx d) grp = Ok zs /\ x = CInt m /\ In m zs /\ forall y, In y zs -> (y <= m)%Z.
Proof. exact (agg_value_int_max ft g grp a d x). Qed.
Print Assumptions C04_max.

Theorem C04_min (ft : float_table) (g : grouper) (grp : list nat) (a : aggregation) (d : list Z) (x : cell) :
  lookup_col (gframe g) (acol a) = Some (ICol d) -> agfn a = GName name_min -> agg_value ft g grp a x ->
  exists zs m, omap (idx d) grp = Ok zs /\ x = CInt m /\ In m zs /\ forall y, In y zs -> (m <= y)%Z.
Proof. exact (agg_value_int_min ft g grp a d x). Qed.
Print Assumptions C04_min.

Theorem C04_majority (ft : float_table) (g : grouper) (grp : list nat) (a : aggregation) (d : list bool) (x : cell) :
  lookup_col (gframe g) (acol a) = Some (BCol d) -> agfn a = GName name_majority -> agg_value ft g grp a x ->
  exists zs b, omap (idx d) grp = Ok zs /\ x = CBool b /\
    (b = true <-> (count_occ Bool.bool_dec zs false < count_occ Bool.bool_dec zs true)%nat).
Proof. exact (agg_value_bool_majority ft g grp a d x). Qed.
Print Assumptions C04_majority.

(* ... and float max / min (folds of math.Max / math.Min on bit patterns); the closed form is claimed for groups
   without NaN only: +Inf / -Inf absorb a NaN in math.Max / math.Min, so the result then depends on the order *)
Theorem C04_float_max (ft : float_table) (g : grouper) (grp : list nat) (a : aggregation) (d : list N) (x : cell) :
  lookup_col (gframe g) (acol a) = Some (FCol d) -> agfn a = GName name_max -> agg_value ft g grp a x ->
  exists zs m, omap (idx d) grp = Ok zs /\ fl_max zs = Ok m /\ x = CFloat m /\
    ((forall y, In y zs -> f_isnan y = false) -> In m zs /\ forall y, In y zs -> f_le y m = true).
Proof. exact (agg_value_float_max ft g grp a d x). Qed.
Print Assumptions C04_float_max.

Theorem C04_float_min (ft : float_table) (g : grouper) (grp : list nat) (a : aggregation) (d : list N) (x : cell) :
  lookup_col (gframe g) (acol a) = Some (FCol d) -> agfn a = GName name_min -> agg_value ft g grp a x ->
  exists zs m, omap (idx d) grp = Ok zs /\ fl_min zs = Ok m /\ x = CFloat m /\
    ((forall y, In y zs -> f_isnan y = false) -> In m zs /\ forall y, In y zs -> f_le m y = true).
Proof. exact (agg_value_float_min ft g grp a d x). Qed.
Print Assumptions C04_float_min.

(* 10. QFrames: exactly the groups' rows: the input frame with the group as its index, in group order *)
Theorem C04_qframes (grp : list coldata -> list nat -> outcome (list (list nat))) (f : frame)
        (columns : list bytes) (g : grouper) :
  group_by_with grp f columns = Ok g -> gerr g = false ->
  qframes g = Ok (map (with_ix f) (gindices g)).
Proof. exact (group_by_qframes grp f columns g). Qed.
Print Assumptions C04_qframes.

Theorem C04_qframes_err (g : grouper) : gerr g = true -> qframes g = Fail.
Proof. exact (qframes_err g). Qed.
Print Assumptions C04_qframes_err.

(* 11. GroupBy, frame level: error / no rows / no columns, whatever the hash table does *)
Theorem C04_groupby_error (grp : list coldata -> list nat -> outcome (list (list nat))) (f : frame)
        (columns : list bytes) :
  ferr f = true \/ forallb (contains f) columns = false -> group_by_with grp f columns = Ok err_grouper.
Proof. exact (group_by_err grp f columns). Qed.
Print Assumptions C04_groupby_error.

Theorem C04_groupby_no_rows (grp : list coldata -> list nat -> outcome (list (list nat))) (f : frame)
        (columns : list bytes) :
  ferr f = false -> forallb (contains f) columns = true -> ix f = [] ->
  group_by_with grp f columns = Ok (mkGrouper (cols f) columns [] false).
Proof. exact (group_by_no_rows grp f columns). Qed.
Print Assumptions C04_groupby_no_rows.

Theorem C04_groupby_no_columns (grp : list coldata -> list nat -> outcome (list (list nat))) (f : frame) :
  ferr f = false -> ix f <> [] -> group_by_with grp f [] = Ok (mkGrouper (cols f) [] [ix f] false).
Proof. exact (group_by_no_columns grp f). Qed.
Print Assumptions C04_groupby_no_columns.

(* 12. GroupBy on a frame with the hash table of Model/Grouper.v: a partition of the index by equality of the
   key cells, for every memhash and every random source (2. + 4. at frame level) *)
Theorem C04_groupby_partition (memhash : bytes -> N -> N) (rnd : nat -> nat -> N) (nulleq : bool)
        (f : frame) (columns : list bytes) :
  frame_ok f -> forallb (contains f) columns = true ->
  (forall i, In i (ix f) -> Forall cell_wf (key_cells (key_columns f columns) i)) ->
  exists g, group_by memhash rnd nulleq f columns = Ok g /\
            gerr g = false /\ gcols g = cols f /\ gkeys g = columns /\
            partition_ok (key_eqb nulleq (key_columns f columns)) (ix f) (gindices g).
Proof. exact (group_by_partition memhash rnd nulleq f columns). Qed.
Print Assumptions C04_groupby_partition.

(* 13. the statement of the property on the model: GroupBy(columns) followed by Aggregate(aggs) / QFrames() *)
Definition C04_full_statement : Prop :=
  forall (memhash : bytes -> N -> N) (rnd : nat -> nat -> N) (nulleq : bool) (ft : float_table)
         (f : frame) (columns : list bytes) (aggs : list aggregation),
  frame_ok f -> forallb (contains f) columns = true ->
  (forall i, In i (ix f) -> Forall cell_wf (key_cells (key_columns f columns) i)) ->
  exists g, group_by memhash rnd nulleq f columns = Ok g /\
    gerr g = false /\ gcols g = cols f /\ gkeys g = columns /\
    partition_ok (key_eqb nulleq (key_columns f columns)) (ix f) (gindices g) /\
    qframes g = Ok (map (with_ix f) (gindices g)) /\
    (tables_complete ft g aggs ->
     exists out, aggregate ft g aggs = Ok out /\
       (ferr out = true <->
        exists i a, nth_error aggs i = Some a /\
                    agg_invalid g (columns ++ map agg_name (firstn i aggs)) a = true) /\
       (ferr out = false ->
        exists t, abs out = Ok t /\ tnames t = columns ++ map agg_name aggs /\
          length (trows t) = length (gindices g) /\
          forall k grp, nth_error (gindices g) k = Some grp ->
            exists first keycells aggcells,
              hd_error grp = Some first /\
              nth_error (trows t) k = Some (keycells ++ aggcells) /\
              Forall2 (key_value g first) columns keycells /\
              Forall2 (agg_value ft g grp) aggs aggcells)).

Theorem C04_groupby_aggregate : C04_full_statement.
Proof. exact groupby_aggregate. Qed.
Print Assumptions C04_groupby_aggregate.

(* ---------------------------------------------------------------- the premises are satisfiable *)

(* five rows (index 4 0 1 2 3) of an int key "k", an int "v" (with MaxInt64: the sum wraps), a bool "b" and an
   enum "s" with a null *)
Definition ex_k : bytes := bs 1 0x6b.
Definition ex_v : bytes := bs 1 0x76.
Definition ex_b : bytes := bs 1 0x62.
Definition ex_s : bytes := bs 1 0x73.
Definition ex_f : frame := mkFrame
  [ (ex_k, ICol [1; 2; 1; 2; 1]%Z); (ex_v, ICol [10; 20; 30; 40; 9223372036854775807]%Z);
    (ex_b, BCol [true; false; true; true; false]);
    (ex_s, ECol [0; 1; 0; 255; 1] [bs 1 0x78; bs 1 0x79] true) ] [4; 0; 1; 2; 3]%nat false.
Definition ex_memhash (b : bytes) (seed : N) : N :=
  fold_left (fun acc x => N.land (acc * 33 + x + 1) 0xFFFFFFFFFFFF) b (seed + 5381).
Definition ex_rnd (_ _ : nat) : N := 0.
(* a user function on the enum column (strings joined), as the table of its values on the two groups *)
Definition ex_join : list (list cell * cell) :=
  [ ([CStr (Some (bs 1 0x79)); CStr (Some (bs 1 0x78)); CStr (Some (bs 1 0x78))], CStr (Some (bs 3 0x797878)));
    ([CStr (Some (bs 1 0x79)); CStr None], CStr (Some (bs 1 0x79))) ].
Definition ex_aggs : list aggregation :=
  [ mkAgg (GName name_sum) ex_v []; mkAgg (GName name_count) ex_v (bs 1 0x6e);
    mkAgg (GName name_majority) ex_b []; mkAgg (GUser TString ex_join) ex_s [] ].

Example C04_example_frame_premises :
  frame_ok ex_f /\ forallb (contains ex_f) [ex_k] = true /\
  (forall i, In i (ix ex_f) -> Forall cell_wf (key_cells (key_columns ex_f [ex_k]) i)).
Proof.
  split; [|split].
  - split; [reflexivity|]. split; [reflexivity|]. split; [|vm_compute; discriminate].
    repeat constructor; simpl; intuition discriminate.
  - reflexivity.
  - intros i Hi. simpl in Hi.
    repeat (destruct Hi as [<-|Hi];
            [match goal with |- Forall cell_wf ?t => let v := eval vm_compute in t in change t with v end;
             repeat constructor|]).
    contradiction.
Qed.

Example C04_example_groupby :
  group_by ex_memhash ex_rnd false ex_f [ex_k] = Ok (mkGrouper (cols ex_f) [ex_k] [[4; 0; 2]; [1; 3]]%nat false).
Proof. vm_compute. reflexivity. Qed.

(* sum wraps around, count, majority, the user function sees the group's strings in group order (row 4 first) *)
Example C04_example_aggregate :
  (do g <- group_by ex_memhash ex_rnd false ex_f [ex_k]; do o <- aggregate [] g ex_aggs; abs o) =
  Ok (mkTable [ex_k; ex_v; bs 1 0x6e; ex_b; ex_s] [TInt; TInt; TInt; TBool; TString]
        [ [CInt 1; CInt (-9223372036854775769); CInt 3; CBool true; CStr (Some (bs 3 0x797878))];
          [CInt 2; CInt 60; CInt 2; CBool false; CStr (Some (bs 1 0x79))] ]).
Proof. vm_compute. reflexivity. Qed.

Definition ex_g : grouper := mkGrouper (cols ex_f) [ex_k] [[4; 0; 2]; [1; 3]]%nat false.

Example C04_example_grouper_wf : grouper_wf ex_g.
Proof.
  split; [reflexivity|]. split; [reflexivity|]. split; [reflexivity|].
  intros grp Hg. simpl in Hg. destruct Hg as [<-|[<-|[]]]; (split; [discriminate|]);
    intros p Hp; simpl in Hp; vm_compute;
    repeat (destruct Hp as [<-|Hp]; [lia|]); contradiction.
Qed.

Example C04_example_tables_complete : tables_complete [] ex_g ex_aggs.
Proof.
  intros a c fnc grp vals Ha L IC R Hg AV.
  simpl in Ha. destruct Ha as [<-|[<-|[<-|[<-|[]]]]]; try (vm_compute in IC; discriminate);
    vm_compute in L; inversion L; subst c;
    simpl in Hg; destruct Hg as [<-|[<-|[]]]; vm_compute in AV; inversion AV; subst vals;
    cbn in R; inversion R; subst fnc; (eexists; split; [vm_compute; reflexivity|reflexivity]).
Qed.

(* the three kinds of rejected aggregation, and the no-column GroupBy *)
Example C04_example_errors :
  (do g <- group_by ex_memhash ex_rnd false ex_f [ex_k]; aggregate [] g [mkAgg (GName name_sum) (bs 1 0x7a) []])
    = Ok err_frame /\                                               (* unknown column "z" *)
  (do g <- group_by ex_memhash ex_rnd false ex_f [ex_k]; aggregate [] g [mkAgg (GName name_sum) ex_v ex_k])
    = Ok err_frame /\                                               (* result named like the grouping column *)
  (do g <- group_by ex_memhash ex_rnd false ex_f [ex_k]; aggregate [] g [mkAgg (GName name_sum) ex_s []])
    = Ok err_frame /\                                               (* no built-in "sum" for enum columns *)
  (do g <- group_by ex_memhash ex_rnd false ex_f [ex_k];
   aggregate [] g [mkAgg (GUser TFloat []) ex_v []]) = Ok err_frame /\   (* func([]float64) float64 on an int column *)
  (do g <- group_by ex_memhash ex_rnd false ex_f []; aggregate [] g [mkAgg (GName name_min) ex_v []])
    = Ok (mkFrame [(ex_v, ICol [10%Z])] [0%nat] false).
Proof. vm_compute. repeat split. Qed.
