(* Property C04 — GroupBy partitions the rows by key (the hash table part: internal/grouper/grouper.go,
   the per-type Hash/Compare methods).  Statements only; proofs in Proofs/Grouper*.v.

   Reading of the premises:
   * [per_on eqb ids]: key equality is symmetric and transitive on the rows of the index — NOT reflexive:
     under groupby.Null(false) a row with a null key is not equal to itself and ends up in a group of its own.
   * [hash_respects eqb hash ids]: rows with equal keys have the same 64 bit hash; [hash] is otherwise
     ARBITRARY (the model truncates it to 32 bits itself), so every collision pattern, every probe chain
     and every growth timing is covered.  C04_hash_respects_eq shows that the per-type Hash methods meet
     this premise for every function memhash.
   * [N.of_nat (length ids) <= 2^30]: grow computes the new length in uint32; with more than 2^30 groups
     the doubled length would wrap to 0 and the Go code would index an empty slice. *)
From QF Require Import Base.Prelude Model.Grouper.
From QF Require Import Proofs.GrouperProofs Proofs.GrouperInv Proofs.GrouperMain Proofs.GrouperCheck Proofs.GrouperHash.
Local Open Scope N_scope.

(* 1a. the fuel lemma: a table of 2^k slots with at least one unoccupied slot is probed successfully
   within [length es] steps from any start slot, whatever test is made on occupied slots *)
Theorem C04_probe_fuel {A : Type} (stop : entry A -> bool) (es : list (option (entry A))) (k start c : N) :
  N.of_nat (length es) = 2 ^ k ->
  (length (occ es) < length es)%nat ->
  start < 2 ^ k ->
  exists d, (d < length es)%nat /\
    probe stop (length es) es (2 ^ k - 1) start c = Ok (posn (2 ^ k) start d, c + N.of_nat d) /\
    (forall d', (d' < d)%nat ->
       exists e, nth_error es (posn (2 ^ k) start d') = Some (Some e) /\ stop e = false) /\
    (nth_error es (posn (2 ^ k) start d) = Some None \/
     exists e, nth_error es (posn (2 ^ k) start d) = Some (Some e) /\ stop e = true).
Proof. exact (probe_total stop es k start c). Qed.
Print Assumptions C04_probe_fuel.

(* 1b. groupIndex never faults and its table satisfies the invariant [tinv] (Proofs/GrouperInv.v):
   length = 2^k with k >= 3; every entry reachable from its home slot without crossing an unoccupied
   slot; groupCount = number of occupied slots; loadFactor = groupCount/len; 2*groupCount <= len + 2;
   stored hash = truncated hash of firstPos; first members pairwise unequal; the members of the
   entries are a permutation of the index, each in index order *)
Theorem C04_table_invariant {A : Type} (eqb : A -> A -> bool) (hash : A -> N) (ids : list A) :
  NoDup ids -> per_on eqb ids -> hash_respects eqb hash ids -> N.of_nat (length ids) <= 2 ^ 30 ->
  exists t, group_index eqb hash true ids = Ok t /\ tinv eqb hash t ids.
Proof. exact (group_index_inv eqb hash ids). Qed.
Print Assumptions C04_table_invariant.

(* 2. GroupBy never panics and returns a partition of the index by key equality: the groups together are
   a permutation of the index, every group is non-empty and keeps the index order, two rows share a group
   iff they are the same row or have equal keys *)
Theorem C04_partition (eqb : nat -> nat -> bool) (hash : nat -> N) (ids : list nat) :
  NoDup ids -> per_on eqb ids -> hash_respects eqb hash ids -> N.of_nat (length ids) <= 2 ^ 30 ->
  exists gs, group_ids eqb hash ids = Ok gs /\ partition_ok eqb ids gs.
Proof. exact (group_ids_partition eqb hash ids). Qed.
Print Assumptions C04_partition.

(* the same for any type of row ids (the instance the correspondence engine evaluates) *)
Theorem C04_partition_gen {A : Type} (eqb : A -> A -> bool) (hash : A -> N) (ids : list A) :
  NoDup ids -> per_on eqb ids -> hash_respects eqb hash ids -> N.of_nat (length ids) <= 2 ^ 30 ->
  exists gs, group_ids_gen eqb hash ids = Ok gs /\ partition_ok eqb ids gs.
Proof. exact (group_ids_partition eqb hash ids). Qed.
Print Assumptions C04_partition_gen.

(* 4. the per-type Hash methods respect the per-type Compare methods, for every memhash and whatever
   rand.Uint64() returns: keys that are Equal in every column fold to the same hash *)
Theorem C04_hash_respects_eq (memhash : bytes -> N -> N) (nulleq : bool) (rnd1 rnd2 : nat -> N)
        (a b : list cell) (col : nat) (seed : N) :
  Forall cell_wf a -> Forall cell_wf b -> key_equal nulleq a b = true ->
  key_hash_from memhash nulleq rnd1 col seed a = key_hash_from memhash nulleq rnd2 col seed b.
Proof. exact (key_equal_hash memhash nulleq rnd1 rnd2 a b col seed). Qed.
Print Assumptions C04_hash_respects_eq.

(* ... per column: Equal cells hand the same bytes to memhash and never take the random branch *)
Theorem C04_cell_hash_input (nulleq : bool) (a b : cell) :
  cell_wf a -> cell_wf b -> cell_equal nulleq a b = true ->
  exists bs, hash_input nulleq a = Some bs /\ hash_input nulleq b = Some bs.
Proof. exact (cell_equal_hash_input nulleq a b). Qed.
Print Assumptions C04_cell_hash_input.

(* ... and the random branch (null key under Null(false)) is sound because such a cell is Equal to
   nothing, not even to itself *)
Theorem C04_random_hash_never_equal (nulleq : bool) (a : cell) :
  hash_input nulleq a = None ->
  forall b, cell_equal nulleq a b = false /\ cell_equal nulleq b a = false.
Proof. exact (random_hash_never_equal nulleq a). Qed.
Print Assumptions C04_random_hash_never_equal.

(* 2 + 4: GroupBy on a frame given by its key cells, any memhash, any random source *)
Theorem C04_frame (cells : nat -> list cell) (nulleq : bool) (memhash : bytes -> N -> N)
        (rnd : nat -> nat -> N) (ids : list nat) :
  NoDup ids -> (forall i, In i ids -> Forall cell_wf (cells i)) -> N.of_nat (length ids) <= 2 ^ 30 ->
  exists gs, group_ids (frame_eqb cells nulleq) (frame_hash cells nulleq memhash rnd) ids = Ok gs /\
             partition_ok (frame_eqb cells nulleq) ids gs.
Proof.
  exact (fun ND W B => group_ids_partition _ _ ids ND (frame_per cells nulleq ids)
                         (frame_hash_respects cells nulleq memhash rnd ids W) B).
Qed.
Print Assumptions C04_frame.

(* 5. the checker applied to the implementation's output decides the specification predicate *)
Theorem C04_partition_b_correct {A : Type} (aeq eqb : A -> A -> bool) (ids : list A) (gs : list (list A)) :
  (forall x y, aeq x y = true <-> x = y) -> NoDup ids -> per_on eqb ids ->
  (partition_b aeq eqb ids gs = true <-> partition_ok eqb ids gs).
Proof.
  exact (fun Haeq ND Hper => conj (partition_b_sound aeq eqb Haeq ids gs ND Hper)
                                  (partition_b_complete aeq eqb Haeq ids gs ND)).
Qed.
Print Assumptions C04_partition_b_correct.

(* ---------------------------------------------------------------- the premises are satisfiable *)

(* six rows, keys 0 1 2 0 1 2 where key 2 is "null, equal to nothing"; every row hashes to 2^32 + 5,
   i.e. all collide after truncation *)
Definition ex_eqb (a b : nat) : bool := (Nat.eqb (a mod 3) (b mod 3) && Nat.ltb (a mod 3) 2)%bool.
Definition ex_hash (a : nat) : N := 4294967301.
Definition ex_ids : list nat := [5; 0; 4; 3; 2; 1]%nat.

Example C04_example_premises :
  NoDup ex_ids /\ per_on ex_eqb ex_ids /\ hash_respects ex_eqb ex_hash ex_ids /\
  N.of_nat (length ex_ids) <= 2 ^ 30.
Proof.
  split; [|split; [|split]].
  - repeat constructor; simpl; intuition discriminate.
  - split.
    + intros a b Ha Hb. simpl in Ha, Hb.
      repeat (destruct Ha as [<-|Ha]; [repeat (destruct Hb as [<-|Hb]; [vm_compute; auto|]); contradiction|]).
      contradiction.
    + intros a b c Ha Hb Hc. simpl in Ha, Hb, Hc.
      repeat (destruct Ha as [<-|Ha];
              [repeat (destruct Hb as [<-|Hb];
                       [repeat (destruct Hc as [<-|Hc]; [vm_compute; auto|]); contradiction|]);
               contradiction|]).
      contradiction.
  - intros a b _ _ _. reflexivity.
  - vm_compute. discriminate.
Qed.

Example C04_example_run :
  group_ids ex_eqb ex_hash ex_ids = Ok [[2]; [5]; [0; 3]; [4; 1]]%nat.   (* probing wrapped around to slot 0 *)
Proof. vm_compute. reflexivity. Qed.

(* float keys: +0 / -0 and two NaN payloads under Null(true) *)
Definition ex_cells (i : nat) : list cell :=
  match i with
  | 0%nat => [CFloat 0]
  | 1%nat => [CFloat 0x8000000000000000]
  | 2%nat => [CFloat 0x7FF8000000000001]
  | _ => [CFloat 0xFFF8000000000000]
  end.
Example C04_example_frame :
  group_ids (frame_eqb ex_cells true)
            (frame_hash ex_cells true (fun b s => fold_left N.add b s) (fun _ _ => 0))
            [0; 1; 2; 3]%nat = Ok [[0; 1]; [2; 3]]%nat.
Proof. vm_compute. reflexivity. Qed.

(* the checker accepts the model's grouping of the first example and rejects two wrong ones: rows 0 and 3
   (equal keys) split, and the null-keyed rows 5 and 2 merged *)
Example C04_example_checker :
  partition_b Nat.eqb ex_eqb ex_ids [[2]; [5]; [0; 3]; [4; 1]]%nat = true /\
  partition_b Nat.eqb ex_eqb ex_ids [[2]; [5]; [0]; [3]; [4; 1]]%nat = false /\
  partition_b Nat.eqb ex_eqb ex_ids [[5; 2]; [0; 3]; [4; 1]]%nat = false.
Proof. vm_compute. auto. Qed.

(* equal hash input does not imply Equal: null and "\x00" under Null(true) (a harmless collision) *)
Example C04_example_null_vs_nul_byte :
  hash_input true (CStr None) = hash_input true (CStr (Some [0])) /\
  cell_equal true (CStr None) (CStr (Some [0])) = false.
Proof. exact null_string_collides_with_nul_byte. Qed.
