(* Property C13 — ToCSV followed by ReadCSV reproduces the frame.
   Statements only; proofs are in Proofs/CsvWriteProofs.v and Proofs/CsvReadProofs.v. *)
From QF Require Import Base.Prelude Model.FastCsv Model.CsvSpec Model.CsvWrite Model.CsvRead
  Proofs.CsvSpecProofs Proofs.CsvWriteProofs Proofs.CsvReadProofs.
Local Open Scope N_scope.

(* the encoding/csv writer (UseCRLF = false) only produces renderings: LF row ends, final line break,
   a field quoted when fieldNeedsQuotes says so *)
Theorem C13_writer_in_renderer_image (comma : N) (recs : list (list bytes)) :
  concat (map (writer_write comma false) recs) = render_rows comma true (srows_of comma recs).
Proof. exact (writer_in_renderer_image comma recs). Qed.
Print Assumptions C13_writer_in_renderer_image.

(* hence the scanner's character machine returns the records written: every record has at least one field
   and its last field does not end in CR (rec_ok) *)
Theorem C13_scan_writer_output (comma : N) (recs : list (list bytes)) :
  delim_ok comma = true ->
  forallb rec_ok recs = true ->
  stream_scan comma (concat (map (writer_write comma false) recs)) = recs.
Proof. exact (scan_writer_output comma recs). Qed.
Print Assumptions C13_scan_writer_output.

(* strconv.FormatInt / strconv.Atoi (the concrete decimal models) are inverse on the whole int64 range *)
Theorem C13_atoi_itoa (z : Z) : in_int64 z = true -> atoi (itoa z) = Some z.
Proof. exact (atoi_itoa z). Qed.
Print Assumptions C13_atoi_itoa.

(* The round trip.  [wf] is the frame in written order (Columns(order) applied; rt_premises asks for distinct
   names, which is reading decision 14: order is a permutation).  Premises: at least one column; names valid
   for qframe.New, distinct, without CR; strings without CR; ints in int64; columns of the frame's length;
   enum columns with declared values (strict) whose null cells come with EmptyNull or a declared empty string
   (reading decision 13) and whose value lists name no value twice (enum_decl_nodup: the reader's enum factory
   rejects a declaration with a repeated value, C13_duplicate_declaration_rejected; every enum column the factory
   built has such a list); the strconv hypotheses on FormatFloat/ParseFloat for non-NaN values.
   Conclusion: ReadCSV (specification level: on the rows the character machine denotes; IgnoreEmptyLines =
   false — a one-column frame writes an empty cell as an empty line) with the frame's types, enum values,
   EmptyNull = e, and Headers(names) when Header(false) was used, returns the same columns in the same order
   with: ints, bools identical; floats bit-identical, every NaN as the one NaN; null string/enum cells as
   the empty string, or all empty strings as null when e is set (norm_col). *)
Theorem C13_roundtrip
  (format_float : N -> bytes) (parse_float : bytes -> option N)
  (float_roundtrip : forall x, is_nan_bits x = false ->
       format_float x <> [] /\ no_cr (format_float x) = true /\ parse_float (format_float x) = Some x)
  (f : frame) (tc : to_conf) (wf : frame) (doc : bytes) (e : bool) :
  iter_cols f tc = Ok wf ->
  to_csv format_float f tc = Ok doc ->
  rt_premises e (frame_len f) wf = true ->
  forallb (fun nc => strict_enum (snd nc)) wf = true ->
  forallb (fun nc => enum_decl_nodup (snd nc)) wf = true ->
  read_csv_spec atoi parse_float atob (read_conf_for e (tc_header tc) wf) doc
  = Ok (map (fun nc => (fst nc, norm_col e (snd nc))) wf).
Proof. exact (roundtrip format_float parse_float float_roundtrip f tc wf doc e). Qed.
Print Assumptions C13_roundtrip.

(* the enum branch of columnToData rejects a declaration that lists a value twice, whatever the cells; hence a
   column that was read has a duplicate-free declaration *)
Theorem C13_duplicate_declaration_rejected (parse_float : bytes -> option N) e vals cells :
  ~ NoDup vals -> column_to_data atoi parse_float atob e DEnum (Some vals) cells = Fail.
Proof. exact (column_to_data_enum_duplicate_rejected parse_float e vals cells). Qed.
Print Assumptions C13_duplicate_declaration_rejected.

(* the premises are satisfiable (no float column, so the formatter is irrelevant): columns I (int), a name
   that needs quoting, S with a null, a quote, a delimiter, a line feed and an empty string, E (enum with
   the empty string declared); written with Columns(order) and without header *)
Definition ex_f : frame :=
  [([73], ColInt [0; -9223372036854775808; 42]%Z);
   ([97; 44; 98], ColBool [true; false; true]);
   ([83], ColString [None; Some [34; 44; 10]; Some []]);
   ([69], ColEnum [[120]; []] [Some [120]; None; Some []])].
Definition ex_tc : to_conf := mkToConf false (Some [[83]; [69]; [73]; [97; 44; 98]]).
Definition ex_wf : frame := Eval vm_compute in match iter_cols ex_f ex_tc with Ok w => w | _ => [] end.
Definition ex_doc : bytes := Eval vm_compute in match to_csv (fun _ => []) ex_f ex_tc with Ok d => d | _ => [] end.

Example C13_roundtrip_example :
  iter_cols ex_f ex_tc = Ok ex_wf /\ to_csv (fun _ => []) ex_f ex_tc = Ok ex_doc /\
  rt_premises false (frame_len ex_f) ex_wf = true /\ rt_premises true (frame_len ex_f) ex_wf = true /\
  forallb (fun nc => strict_enum (snd nc)) ex_wf = true /\
  forallb (fun nc => enum_decl_nodup (snd nc)) ex_wf = true /\
  read_csv_spec atoi (fun _ => None) atob (read_conf_for true false ex_wf) ex_doc
  = Ok (map (fun nc => (fst nc, norm_col true (snd nc))) ex_wf).
Proof. vm_compute. repeat split. Qed.

(* the one-column caveat: an empty cell of a one-column frame is an empty line, which IgnoreEmptyLines drops *)
Definition ex1_f : frame := [([83], ColString [Some [97]; Some []; Some [98]])].
Definition ex1_doc : bytes := [83; 10; 97; 10; 10; 98; 10].
Example C13_one_column_empty_cell :
  to_csv (fun _ => []) ex1_f (mkToConf true None) = Ok ex1_doc /\
  read_csv_spec atoi (fun _ => None) atob (read_conf_for false true ex1_f) ex1_doc
    = Ok [([83], ColString [Some [97]; Some []; Some [98]])] /\
  read_csv_spec atoi (fun _ => None) atob
    (mkConf false true 44 [([83], ty_string)] [] 0%Z [] false []) ex1_doc
    = Ok [([83], ColString [Some [97]; Some [98]])].
Proof. vm_compute. repeat split. Qed.

(* not proved here (covered by the engine only): enum columns without declared values (non-strict factory),
   and the link from read_csv_spec to the buffer-level scanner (C12_fragmentation_full_statement). *)
Definition C13_nonstrict_enum_full_statement : Prop :=
  forall (format_float : N -> bytes) (parse_float : bytes -> option N),
  (forall x, is_nan_bits x = false ->
       format_float x <> [] /\ no_cr (format_float x) = true /\ parse_float (format_float x) = Some x) ->
  forall (f : frame) (tc : to_conf) (wf : frame) (doc : bytes) (e : bool),
  iter_cols f tc = Ok wf ->
  to_csv format_float f tc = Ok doc ->
  rt_premises e (frame_len f) wf = true ->
  (forall n vals l, In (n, ColEnum vals l) wf -> vals = [] ->
     (length (nodup (list_eq_dec N.eq_dec) (map (fun o => match o with Some s => s | None => [] end) l))
      <= enum_max_cardinality)%nat) ->
  (forall n vals l, In (n, ColEnum vals l) wf -> NoDup vals) ->
  exists g, read_csv_spec atoi parse_float atob (read_conf_for e (tc_header tc) wf) doc = Ok g /\
            map fst g = map fst wf.
