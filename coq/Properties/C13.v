(* Property C13 — ToCSV followed by ReadCSV reproduces the frame.
   Statements only; proofs are in Proofs/CsvWriteProofs.v, Proofs/CsvReadProofs.v and Proofs/CsvRoundProofs2.v. *)
From QF Require Import Base.Prelude Model.FastCsv Model.CsvSpec Model.CsvWrite Model.CsvRead
  Proofs.CsvSpecProofs Proofs.CsvWriteProofs Proofs.CsvReadProofs Proofs.CsvRoundProofs2.
Local Open Scope N_scope.

(* the encoding/csv writer (UseCRLF = false) only produces renderings: LF row ends, final line break,
   a field quoted when fieldNeedsQuotes says so *)
Theorem C13_writer_in_renderer_image (comma : N) (recs : list (list bytes)) :
  concat (map (writer_write comma false) recs) = render_rows comma true (srows_of comma recs).
Proof. exact (writer_in_renderer_image comma recs). Qed.
Print Assumptions C13_writer_in_renderer_image.

(* hence the scanner's character machine returns the records written: every record has at least one field
   and its last field does not end in CR (rec_ok) *)
Theorem C13_scan_writer_output (comma : N) (recs : list (list bytes)) :
  delim_ok comma = true ->
  forallb rec_ok recs = true ->
  stream_scan comma (concat (map (writer_write comma false) recs)) = recs.
Proof. exact (scan_writer_output comma recs). Qed.
Print Assumptions C13_scan_writer_output.

(* strconv.FormatInt / strconv.Atoi (the concrete decimal models) are inverse on the whole int64 range *)
Theorem C13_atoi_itoa (z : Z) : in_int64 z = true -> atoi (itoa z) = Some z.
Proof. exact (atoi_itoa z). Qed.
Print Assumptions C13_atoi_itoa.

(* The round trip.  [wf] is the frame in written order (Columns(order) applied; rt_premises asks for distinct
   names, which is reading decision 14: order is a permutation).  Premises: at least one column; names valid
   for qframe.New, distinct, without CR; strings without CR; ints in int64; columns of the frame's length;
   enum columns with declared values (strict) whose null cells come with EmptyNull or a declared empty string
   (reading decision 13) and whose value lists name no value twice (enum_decl_nodup: the reader's enum factory
   rejects a declaration with a repeated value, C13_duplicate_declaration_rejected; every enum column the factory
   built has such a list); the strconv hypotheses on FormatFloat/ParseFloat for non-NaN values.
   Conclusion: ReadCSV (specification level: on the rows the character machine denotes; IgnoreEmptyLines =
   false — a one-column frame writes an empty cell as an empty line) with the frame's types, enum values,
   EmptyNull = e, and Headers(names) when Header(false) was used, returns the same columns in the same order
   with: ints, bools identical; floats bit-identical, every NaN as the one NaN; null string/enum cells as
   the empty string, or all empty strings as null when e is set (norm_col). *)
Theorem C13_roundtrip
  (format_float : N -> bytes) (parse_float : bytes -> option N)
  (float_roundtrip : forall x, is_nan_bits x = false ->
       format_float x <> [] /\ no_cr (format_float x) = true /\ parse_float (format_float x) = Some x)
  (f : frame) (tc : to_conf) (wf : frame) (doc : bytes) (e : bool) :
  iter_cols f tc = Ok wf ->
  to_csv format_float f tc = Ok doc ->
  rt_premises e (frame_len f) wf = true ->
  forallb (fun nc => strict_enum (snd nc)) wf = true ->
  forallb (fun nc => enum_decl_nodup (snd nc)) wf = true ->
  read_csv_spec atoi parse_float atob (read_conf_for e (tc_header tc) wf) doc
  = Ok (map (fun nc => (fst nc, norm_col e (snd nc))) wf).
Proof. exact (roundtrip format_float parse_float float_roundtrip f tc wf doc e). Qed.
Print Assumptions C13_roundtrip.

(* the enum branch of columnToData rejects a declaration that lists a value twice, whatever the cells; hence a
   column that was read has a duplicate-free declaration *)
Theorem C13_duplicate_declaration_rejected (parse_float : bytes -> option N) e vals cells :
  ~ NoDup vals -> column_to_data atoi parse_float atob e DEnum (Some vals) cells = Fail.
Proof. exact (column_to_data_enum_duplicate_rejected parse_float e vals cells). Qed.
Print Assumptions C13_duplicate_declaration_rejected.

Theorem C13_read_enum_declaration_nodup (parse_float : bytes -> option N) e vals cells c :
  column_to_data atoi parse_float atob e DEnum (Some vals) cells = Ok c -> NoDup vals.
Proof. exact (column_to_data_enum_ok_nodup parse_float e vals cells c). Qed.
Print Assumptions C13_read_enum_declaration_nodup.

(* the premise as a computable check *)
Theorem C13_enum_decl_nodup_spec (c : column) :
  enum_decl_nodup c = true <-> (forall vals l, c = ColEnum vals l -> NoDup vals).
Proof. exact (enum_decl_nodup_iff c). Qed.
Print Assumptions C13_enum_decl_nodup_spec.

(* the premises are satisfiable (no float column, so the formatter is irrelevant): columns I (int), a name
   that needs quoting, S with a null, a quote, a delimiter, a line feed and an empty string, E (enum with
   the empty string declared); written with Columns(order) and without header *)
Definition ex_f : frame :=
  [([73], ColInt [0; -9223372036854775808; 42]%Z);
   ([97; 44; 98], ColBool [true; false; true]);
   ([83], ColString [None; Some [34; 44; 10]; Some []]);
   ([69], ColEnum [[120]; []] [Some [120]; None; Some []])].
Definition ex_tc : to_conf := mkToConf false (Some [[83]; [69]; [73]; [97; 44; 98]]).
Definition ex_wf : frame := Eval vm_compute in match iter_cols ex_f ex_tc with Ok w => w | _ => [] end.
Definition ex_doc : bytes := Eval vm_compute in match to_csv (fun _ => []) ex_f ex_tc with Ok d => d | _ => [] end.

Example C13_roundtrip_example :
  iter_cols ex_f ex_tc = Ok ex_wf /\ to_csv (fun _ => []) ex_f ex_tc = Ok ex_doc /\
  rt_premises false (frame_len ex_f) ex_wf = true /\ rt_premises true (frame_len ex_f) ex_wf = true /\
  forallb (fun nc => strict_enum (snd nc)) ex_wf = true /\
  forallb (fun nc => enum_decl_nodup (snd nc)) ex_wf = true /\
  read_csv_spec atoi (fun _ => None) atob (read_conf_for true false ex_wf) ex_doc
  = Ok (map (fun nc => (fst nc, norm_col true (snd nc))) ex_wf).
Proof. vm_compute. repeat split. Qed.

(* the one-column caveat: an empty cell of a one-column frame is an empty line, which IgnoreEmptyLines drops *)
Definition ex1_f : frame := [([83], ColString [Some [97]; Some []; Some [98]])].
Definition ex1_doc : bytes := [83; 10; 97; 10; 10; 98; 10].
Example C13_one_column_empty_cell :
  to_csv (fun _ => []) ex1_f (mkToConf true None) = Ok ex1_doc /\
  read_csv_spec atoi (fun _ => None) atob (read_conf_for false true ex1_f) ex1_doc
    = Ok [([83], ColString [Some [97]; Some []; Some [98]])] /\
  read_csv_spec atoi (fun _ => None) atob
    (mkConf false true 44 [([83], ty_string)] [] 0%Z [] false []) ex1_doc
    = Ok [([83], ColString [Some [97]; Some [98]])].
Proof. vm_compute. repeat split. Qed.

(* the statement the first wave left open (enum columns without declared values: the read succeeds and returns
   the same column names); now a theorem, see C13_nonstrict_enum below, and superseded by C13_roundtrip_enum *)
Definition C13_nonstrict_enum_full_statement : Prop :=
  forall (format_float : N -> bytes) (parse_float : bytes -> option N),
  (forall x, is_nan_bits x = false ->
       format_float x <> [] /\ no_cr (format_float x) = true /\ parse_float (format_float x) = Some x) ->
  forall (f : frame) (tc : to_conf) (wf : frame) (doc : bytes) (e : bool),
  iter_cols f tc = Ok wf ->
  to_csv format_float f tc = Ok doc ->
  rt_premises e (frame_len f) wf = true ->
  (forall n vals l, In (n, ColEnum vals l) wf -> vals = [] ->
     (length (nodup (list_eq_dec N.eq_dec) (map (fun o => match o with Some s => s | None => [] end) l))
      <= enum_max_cardinality)%nat) ->
  (forall n vals l, In (n, ColEnum vals l) wf -> NoDup vals) ->
  exists g, read_csv_spec atoi parse_float atob (read_conf_for e (tc_header tc) wf) doc = Ok g /\
            map fst g = map fst wf.

Theorem C13_nonstrict_enum : C13_nonstrict_enum_full_statement.
Proof. exact nonstrict_enum_names. Qed.
Print Assumptions C13_nonstrict_enum.

(* ================================================================ second wave *)

(* ---- 1. enum columns without declared values (ColEnum [] l: the reader is told "enum" only; this is also what
   read_conf_for declares for a column whose value table is empty).  The non-strict factory derives the value
   table [first_occ e cells]: the non-null cell strings in FIRST-OCCURRENCE order, each once. *)
Theorem C13_first_occurrence_order (e : bool) (cells : list bytes) :
  first_occ e cells = dedup_first (kept_cells e cells).
Proof. exact (first_occ_spec e cells). Qed.
Print Assumptions C13_first_occurrence_order.

(* The round trip for strict AND non-strict enum columns (this generalises C13_roundtrip: for a frame whose enum
   columns all carry values, card_ok is true and readback_col = norm_col).  A non-strict column comes back with
   the same cells as strings (norm_cell as for strings) and the re-derived value table:
     readback_col e (ColEnum [] l) = ColEnum (first_occ e (map opt_str l)) (map (norm_cell e) l).
   RANK ORDER: enum comparisons (Sort, <, >) use the position in the value table.  After the round trip without
   declared values that position is the position of the first occurrence in the written column - in general NOT
   the order of the original table (C13_rank_order_changes below); unused values of the original table are gone.
   Extra premise: at most 255 distinct non-null strings (card_ok; C13_nonstrict_limit_sharp: it is necessary).
   As in C13_roundtrip, a declared (non-empty) value list names no value twice (enum_decl_nodup; for a column
   without declared values there is nothing to ask: enum_decl_nodup (ColEnum [] l) = true by computation, and the
   re-derived table is duplicate-free, C13_first_occurrence_nodup). *)
Theorem C13_roundtrip_enum
  (format_float : N -> bytes) (parse_float : bytes -> option N)
  (float_roundtrip : forall x, is_nan_bits x = false ->
       format_float x <> [] /\ no_cr (format_float x) = true /\ parse_float (format_float x) = Some x)
  (f : frame) (tc : to_conf) (wf : frame) (doc : bytes) (e : bool) :
  iter_cols f tc = Ok wf ->
  to_csv format_float f tc = Ok doc ->
  rt_premises e (frame_len f) wf = true ->
  forallb (fun nc => card_ok e (snd nc)) wf = true ->
  forallb (fun nc => enum_decl_nodup (snd nc)) wf = true ->
  read_csv_spec atoi parse_float atob (read_conf_for e (tc_header tc) wf) doc
  = Ok (map (fun nc => (fst nc, readback_col e (snd nc))) wf).
Proof. exact (roundtrip2 format_float parse_float float_roundtrip f tc wf doc e). Qed.
Print Assumptions C13_roundtrip_enum.

(* that premise is necessary: with all the other premises in place, a frame with an enum column whose declared
   value list names a value twice is written by ToCSV, and ReadCSV given that list as EnumVals reports an error *)
Theorem C13_roundtrip_duplicate_declaration_fails
  (format_float : N -> bytes) (parse_float : bytes -> option N)
  (float_roundtrip : forall x, is_nan_bits x = false ->
       format_float x <> [] /\ no_cr (format_float x) = true /\ parse_float (format_float x) = Some x)
  (f : frame) (tc : to_conf) (wf : frame) (doc : bytes) (e : bool) :
  iter_cols f tc = Ok wf ->
  to_csv format_float f tc = Ok doc ->
  rt_premises e (frame_len f) wf = true ->
  forallb (fun nc => card_ok e (snd nc)) wf = true ->
  forallb (fun nc => enum_decl_nodup (snd nc)) wf = false ->
  read_csv_spec atoi parse_float atob (read_conf_for e (tc_header tc) wf) doc = Fail.
Proof. exact (roundtrip2_duplicate format_float parse_float float_roundtrip f tc wf doc e). Qed.
Print Assumptions C13_roundtrip_duplicate_declaration_fails.

(* premises satisfiable: the value x is listed twice (every cell is a listed value, so nothing else is wrong) *)
Definition ex6_f : frame :=
  [([73], ColInt [1; 2; 3]%Z); ([69], ColEnum [[120]; [121]; [120]] [Some [120]; Some [121]; Some [120]])].
Example C13_roundtrip_duplicate_declaration_example :
  let tc := mkToConf true None in
  iter_cols ex6_f tc = Ok ex6_f /\
  (exists doc, to_csv (fun _ => []) ex6_f tc = Ok doc) /\
  rt_premises false (frame_len ex6_f) ex6_f = true /\
  forallb (fun nc => card_ok false (snd nc)) ex6_f = true /\
  forallb (fun nc => enum_decl_nodup (snd nc)) ex6_f = false.
Proof. cbv zeta. split; [reflexivity|]. split; [eexists; vm_compute; reflexivity|]. vm_compute. repeat split. Qed.

(* the table the non-strict factory derives never lists a value twice, so a frame that was read back without
   declared values can be written and read again WITH its tables declared *)
Theorem C13_first_occurrence_nodup (e : bool) (cells : list bytes) : NoDup (first_occ e cells).
Proof. exact (first_occ_NoDup e cells [] (NoDup_nil bytes)). Qed.
Print Assumptions C13_first_occurrence_nodup.

Theorem C13_readback_decl_nodup (e : bool) (c : column) :
  enum_decl_nodup c = true -> enum_decl_nodup (readback_col e c) = true.
Proof. exact (readback_decl_nodup e c). Qed.
Print Assumptions C13_readback_decl_nodup.

Theorem C13_readback_strict (e : bool) (c : column) :
  strict_enum c = true -> readback_col e c = norm_col e c /\ card_ok e c = true.
Proof. exact (fun H => conj (readback_strict e c H) (card_strict e c H)). Qed.
Print Assumptions C13_readback_strict.

Theorem C13_nonstrict_limit_sharp (parse_float : bytes -> option N) (e : bool) ev (cells : list bytes) :
  ev = None \/ ev = Some [] ->
  (enum_max_cardinality < length (first_occ e cells))%nat ->
  column_to_data atoi parse_float atob e DEnum ev cells = Fail.
Proof. exact (nonstrict_overflow parse_float e ev cells). Qed.
Print Assumptions C13_nonstrict_limit_sharp.

(* 256 distinct strings: one too many; 255 are fine *)
Example C13_nonstrict_limit_example :
  let cells := map (fun i => [N.of_nat i; 65]) (seq 0 256) in
  (enum_max_cardinality < length (first_occ false cells))%nat /\
  column_to_data atoi (fun _ => None) atob false DEnum None cells = Fail /\
  card_ok false (ColEnum [] (map Some (tl cells))) = true.
Proof. cbv zeta. split; [vm_compute; lia|]. split; vm_compute; reflexivity. Qed.

(* ---- 1b. exactly what is needed about CR.  The property excludes CR from all strings; the model needs less: the
   scanner returns the written records iff no record's LAST field ends in CR (Reader.Next drops a CR in front of
   the row's line feed even when the field was quoted).  So: rt_premises_sharp = rt_premises without the CR
   conditions, and last_col_ok: no string of the LAST written column ends in CR, nor does the last column name
   when the header row is written.  CR anywhere else (inside a string, at the end of a string of another
   column, in another column's name) survives the round trip. *)
Theorem C13_roundtrip_cr_sharp
  (format_float : N -> bytes) (parse_float : bytes -> option N)
  (float_roundtrip : forall x, is_nan_bits x = false ->
       format_float x <> [] /\ no_cr (format_float x) = true /\ parse_float (format_float x) = Some x)
  (f : frame) (tc : to_conf) (wf : frame) (doc : bytes) (e : bool) :
  iter_cols f tc = Ok wf ->
  to_csv format_float f tc = Ok doc ->
  rt_premises_sharp e (frame_len f) wf = true ->
  last_col_ok (tc_header tc) wf = true ->
  forallb (fun nc => card_ok e (snd nc)) wf = true ->
  forallb (fun nc => enum_decl_nodup (snd nc)) wf = true ->
  read_csv_spec atoi parse_float atob (read_conf_for e (tc_header tc) wf) doc
  = Ok (map (fun nc => (fst nc, readback_col e (snd nc))) wf).
Proof. exact (roundtrip_sharp format_float parse_float float_roundtrip f tc wf doc e). Qed.
Print Assumptions C13_roundtrip_cr_sharp.

Theorem C13_cr_sharp_generalises (e : bool) (n : nat) (f : frame) :
  rt_premises e n f = true -> rt_premises_sharp e n f = true.
Proof. exact (rt_premises_weaken e n f). Qed.
Print Assumptions C13_cr_sharp_generalises.

(* premises satisfiable: CR in a column name, inside and at the end of strings of the first column, inside a
   string of the last column; and the condition on the last column is needed (C13_needs_no_trailing_cr below) *)
Definition ex4_f : frame :=
  [([13; 97], ColString [Some [120; 13]; Some [13]; Some [13; 10; 13]]);
   ([98], ColString [Some [13; 121]; None; Some [122; 13; 122]])].
Example C13_roundtrip_cr_sharp_example :
  let tc := mkToConf true None in
  rt_premises false (frame_len ex4_f) ex4_f = false /\
  rt_premises_sharp false (frame_len ex4_f) ex4_f = true /\ last_col_ok true ex4_f = true /\
  forallb (fun nc => card_ok false (snd nc)) ex4_f = true /\
  forallb (fun nc => enum_decl_nodup (snd nc)) ex4_f = true /\
  match to_csv (fun _ => []) ex4_f tc with
  | Ok doc => read_csv_spec atoi (fun _ => None) atob (read_conf_for false true ex4_f) doc
  | _ => Fail end
  = Ok (map (fun nc => (fst nc, readback_col false (snd nc))) ex4_f).
Proof. vm_compute. repeat split. Qed.

(* ---- 2. through the BUFFER-level reader (Model/FastCsv.v, the model engine csv executes against
   internal/fastcsv): whatever the chunks the io.Reader delivers (non-empty; C12_zero_byte_read_panics) and
   whether EOF comes with the last data or separately.  Uses C12's buffer_refines_stream. *)
Theorem C13_roundtrip_any_fragmentation
  (format_float : N -> bytes) (parse_float : bytes -> option N)
  (float_roundtrip : forall x, is_nan_bits x = false ->
       format_float x <> [] /\ no_cr (format_float x) = true /\ parse_float (format_float x) = Some x)
  (f : frame) (tc : to_conf) (wf : frame) (doc : bytes) (e : bool) (chunks : list bytes) (t : rterm) :
  iter_cols f tc = Ok wf ->
  to_csv format_float f tc = Ok doc ->
  rt_premises e (frame_len f) wf = true ->
  forallb (fun nc => card_ok e (snd nc)) wf = true ->
  forallb (fun nc => enum_decl_nodup (snd nc)) wf = true ->
  Forall (fun c : bytes => c <> []) chunks -> concat chunks = doc -> (t = TEofSep \/ t = TEofWith) ->
  read_csv_buf atoi parse_float atob (read_conf_for e (tc_header tc) wf) chunks t
  = Ok (map (fun nc => (fst nc, readback_col e (snd nc))) wf).
Proof. exact (roundtrip_fragmented format_float parse_float float_roundtrip f tc wf doc e chunks t). Qed.
Print Assumptions C13_roundtrip_any_fragmentation.

(* the reader declares the TYPES only (no EnumVals), whatever value tables the written enum columns have - even
   a table that lists a value twice: nothing is declared, so the reader's duplicate check has nothing to reject
   (no enum_decl_nodup premise here) *)
Theorem C13_roundtrip_undeclared_enum_values
  (format_float : N -> bytes) (parse_float : bytes -> option N)
  (float_roundtrip : forall x, is_nan_bits x = false ->
       format_float x <> [] /\ no_cr (format_float x) = true /\ parse_float (format_float x) = Some x)
  (f : frame) (tc : to_conf) (wf : frame) (doc : bytes) (e : bool) (chunks : list bytes) (t : rterm) :
  iter_cols f tc = Ok wf ->
  to_csv format_float f tc = Ok doc ->
  rt_premises e (frame_len f) (forget_frame wf) = true ->
  forallb (fun nc => card_ok e (snd nc)) (forget_frame wf) = true ->
  Forall (fun c : bytes => c <> []) chunks -> concat chunks = doc -> (t = TEofSep \/ t = TEofWith) ->
  read_csv_buf atoi parse_float atob (read_conf_for e (tc_header tc) (forget_frame wf)) chunks t
  = Ok (map (fun nc => (fst nc, readback_col e (forget_vals (snd nc)))) wf).
Proof. exact (roundtrip_undeclared format_float parse_float float_roundtrip f tc wf doc e chunks t). Qed.
Print Assumptions C13_roundtrip_undeclared_enum_values.

(* premises satisfiable (no non-NaN float, so the formatter is irrelevant); E has the value table [b; a], its
   cells are a, null, b, a; Columns(order), no header; the document cut into chunks of 1, 2, 3, ... bytes.
   Read back with the types only, E gets the table [a; b]: the rank order of a and b is REVERSED. *)
Definition ex2_f : frame :=
  [([73], ColInt [5; -1; 0; 7]%Z);
   ([70], ColFloat [nan_bits; 0x7FF8000000000000; nan_bits; nan_bits]);
   ([69], ColEnum [[98]; [97]] [Some [97]; None; Some [98]; Some [97]])].
Definition ex2_tc : to_conf := mkToConf false (Some [[69]; [73]; [70]]).
Definition ex2_wf : frame := Eval vm_compute in match iter_cols ex2_f ex2_tc with Ok w => w | _ => [] end.
Definition ex2_doc : bytes := Eval vm_compute in match to_csv (fun _ => []) ex2_f ex2_tc with Ok d => d | _ => [] end.
Fixpoint ex_chunks (fuel k : nat) (doc : bytes) : list bytes :=
  match fuel, doc with
  | S fuel', _ :: _ => firstn k doc :: ex_chunks fuel' (S k) (skipn k doc)
  | _, _ => []
  end.
Definition ex2_chunks : list bytes := Eval vm_compute in ex_chunks 100 1 ex2_doc.

Example C13_rank_order_changes :
  iter_cols ex2_f ex2_tc = Ok ex2_wf /\ to_csv (fun _ => []) ex2_f ex2_tc = Ok ex2_doc /\
  rt_premises true (frame_len ex2_f) (forget_frame ex2_wf) = true /\
  forallb (fun nc => card_ok true (snd nc)) (forget_frame ex2_wf) = true /\
  rt_premises true (frame_len ex2_f) ex2_wf = true /\
  forallb (fun nc => card_ok true (snd nc)) ex2_wf = true /\
  forallb (fun nc => enum_decl_nodup (snd nc)) ex2_wf = true /\
  Forall (fun c : bytes => c <> []) ex2_chunks /\ concat ex2_chunks = ex2_doc /\ (2 < length ex2_chunks)%nat /\
  read_csv_buf atoi (fun _ => None) atob (read_conf_for true false (forget_frame ex2_wf)) ex2_chunks TEofWith
  = Ok [([69], ColEnum [[97]; [98]] [Some [97]; None; Some [98]; Some [97]]);
        ([73], ColInt [5; -1; 0; 7]%Z);
        ([70], ColFloat [nan_bits; nan_bits; nan_bits; nan_bits])] /\
  read_csv_buf atoi (fun _ => None) atob (read_conf_for true false ex2_wf) ex2_chunks TEofSep
  = Ok [([69], ColEnum [[98]; [97]] [Some [97]; None; Some [98]; Some [97]]);
        ([73], ColInt [5; -1; 0; 7]%Z);
        ([70], ColFloat [nan_bits; nan_bits; nan_bits; nan_bits])].
Proof.
  repeat split; try (vm_compute; reflexivity).
  - vm_compute. repeat constructor; discriminate.
  - vm_compute. lia.
Qed.

(* ================================================================ 3. from a physical frame *)

From QF Require Import Model.Json Model.Observe Proofs.EnumProofs.
(* from here on [frame] is the physical frame of Model/Frame.v (columns, row index, error flag) *)
From QF Require Import Model.Frame Model.Filter Model.Ops Model.TableSpec.

(* The frame as the typed views deliver it (observe_frame: ColumnNames, ColumnTypes, one typed view per name -
   what engine csv reads from the implementation and what frame_to_csv writes) is the logical table [abs f]:
   same names, types, and cell (i, j) of the table is cell i of observed column j.  Any row index (permuted,
   with repetitions, a subset), provided abs is defined (index within the columns, enum ranks valid:
   C09_wf_abs).  Premise: unique names (C09_to_csv_duplicate_names). *)
Theorem C13_observe_is_table (f : frame) (t : table) :
  abs f = Ok t -> NoDup (col_names f) ->
  exists o, observe_frame f = Ok o /\ table_of (length (ix f)) o = t
    /\ Forall (fun nc => CsvSpec.col_len (snd nc) = length (ix f)) o
    /\ Forall (fun nc => enum_in_vals (snd nc)) o.
Proof. exact (observe_table f t). Qed.
Print Assumptions C13_observe_is_table.

(* The round trip from the physical frame through the buffer-level reader.
   Premises, all of them: (1) abs f defined; (2) unique column names; (3) phys_premises e f - on the frame as
   observed: at least one column, names accepted by qframe.New (non-empty, not quoted, no leading $) and
   without CR, no CR in string / enum cells, every column of the frame's length, a null enum cell only with
   EmptyNull or with "" among the column's values (or an empty value table), no enum value table that lists a
   value twice (the reader is given the tables as EnumVals and rejects such a declaration,
   C13_needs_distinct_enum_values; every column built by the enum factory has such a table, C17_table_nodup);
   ints within int64 (always true in Go; the model's ints are Z); (4) Columns(order) lists no name twice; (5) the strconv premise on
   FormatFloat/ParseFloat for non-NaN values; (6) the io.Reader never returns 0 bytes without EOF.
   NOT needed: the non-strict cardinality limit (an observed column with an empty value table has only null
   cells), any property of the row index beyond (1).
   Conclusion: the reader is configured from the written columns wf (types, the columns' value tables, Headers
   when Header(false)); wf are the frame's columns, or its column of each name of Columns(order); the frame g
   read back has wf's names, and as a table it is the table of wf with every cell normalised (norm_tcell: null
   string/enum -> "", or "" -> null under EmptyNull; every NaN -> the one NaN; everything else identical,
   floats bit for bit). *)
Theorem C13_roundtrip_physical
  (format_float : N -> bytes) (parse_float : bytes -> option N)
  (float_roundtrip : forall x, is_nan_bits x = false ->
       format_float x <> [] /\ no_cr (format_float x) = true /\ parse_float (format_float x) = Some x)
  (f : frame) (t : table) (tc : to_conf) (doc : bytes) (e : bool) (chunks : list bytes) (term : rterm) :
  abs f = Ok t -> NoDup (col_names f) ->
  phys_premises e f = true ->
  (forall order, tc_columns tc = Some order -> has_dup order = false) ->
  frame_to_csv format_float f tc = Ok doc ->
  Forall (fun c : bytes => c <> []) chunks -> concat chunks = doc -> (term = TEofSep \/ term = TEofWith) ->
  exists o wf g,
    observe_frame f = Ok o /\ table_of (length (ix f)) o = t /\
    iter_cols o tc = Ok wf /\ (forall nc, In nc wf -> In nc o) /\
    match tc_columns tc with None => wf = o | Some order => map fst wf = order end /\
    read_csv_buf atoi parse_float atob (read_conf_for e (tc_header tc) wf) chunks term = Ok g /\
    g = map (fun nc => (fst nc, readback_col e (snd nc))) wf /\
    table_of (length (ix f)) g = norm_table e (table_of (length (ix f)) wf).
Proof. exact (roundtrip_physical format_float parse_float float_roundtrip f t tc doc e chunks term). Qed.
Print Assumptions C13_roundtrip_physical.

(* without Columns(order), with or without header row: the table read back is abs f, normalised *)
Theorem C13_roundtrip_physical_table
  (format_float : N -> bytes) (parse_float : bytes -> option N)
  (float_roundtrip : forall x, is_nan_bits x = false ->
       format_float x <> [] /\ no_cr (format_float x) = true /\ parse_float (format_float x) = Some x)
  (f : frame) (t : table) (hdr : bool) (doc : bytes) (e : bool) (chunks : list bytes) (term : rterm) :
  abs f = Ok t -> NoDup (col_names f) ->
  phys_premises e f = true ->
  frame_to_csv format_float f (mkToConf hdr None) = Ok doc ->
  Forall (fun c : bytes => c <> []) chunks -> concat chunks = doc -> (term = TEofSep \/ term = TEofWith) ->
  exists o g,
    observe_frame f = Ok o /\
    read_csv_buf atoi parse_float atob (read_conf_for e hdr o) chunks term = Ok g /\
    table_of (length (ix f)) g = norm_table e t.
Proof. exact (roundtrip_physical_table format_float parse_float float_roundtrip f t hdr doc e chunks term). Qed.
Print Assumptions C13_roundtrip_physical_table.

(* with Columns(order), order without repetition: the table read back is Select(order...) of abs f (tselect of
   Model/TableSpec.v, the specification of C10's Select), normalised *)
Theorem C13_roundtrip_physical_columns
  (format_float : N -> bytes) (parse_float : bytes -> option N)
  (float_roundtrip : forall x, is_nan_bits x = false ->
       format_float x <> [] /\ no_cr (format_float x) = true /\ parse_float (format_float x) = Some x)
  (f : frame) (t : table) (hdr : bool) (order : list bytes) (doc : bytes) (e : bool)
  (chunks : list bytes) (term : rterm) :
  abs f = Ok t -> NoDup (col_names f) ->
  phys_premises e f = true -> has_dup order = false ->
  frame_to_csv format_float f (mkToConf hdr (Some order)) = Ok doc ->
  Forall (fun c : bytes => c <> []) chunks -> concat chunks = doc -> (term = TEofSep \/ term = TEofWith) ->
  exists o wf g t',
    observe_frame f = Ok o /\ iter_cols o (mkToConf hdr (Some order)) = Ok wf /\
    tselect t order = Some t' /\
    read_csv_buf atoi parse_float atob (read_conf_for e hdr wf) chunks term = Ok g /\
    table_of (length (ix f)) g = norm_table e t'.
Proof.
  exact (roundtrip_physical_columns format_float parse_float float_roundtrip f t hdr order doc e chunks term).
Qed.
Print Assumptions C13_roundtrip_physical_columns.

(* premise (3) spelled out on the logical table and the enum columns: at least one column; every name accepted
   by qframe.New and without CR; every cell an int64 / a string without CR (cell_rt_ok); every enum column with
   at most 255 values and, if a null occurs among its indexed rows, EmptyNull set or "" among its values or no
   values at all (enum_null_ok); no enum value table with a repeated value (enum_tables_nodup of
   Proofs/EnumProofs.v, the premise C09 and C14 use as well: what every column built by the enum factory has).
   These imply phys_premises. *)
Theorem C13_physical_premises_on_the_table (e : bool) (f : frame) (t : table) :
  abs f = Ok t -> NoDup (col_names f) -> cols f <> [] ->
  Forall (fun n => CsvRead.check_name n = true /\ no_cr n = true) (col_names f) ->
  Forall (Forall cell_rt_ok) (trows t) ->
  Forall (fun nc => enum_null_ok e (ix f) (snd nc)) (cols f) ->
  enum_tables_nodup f = true ->
  phys_premises e f = true.
Proof. exact (phys_premises_intro e f t). Qed.
Print Assumptions C13_physical_premises_on_the_table.

(* for every well-formed frame (C10: what the library builds - equal physical lengths, index in range in any
   order with or without repetitions, valid enum ranks) abs is defined *)
Theorem C13_roundtrip_physical_wf
  (format_float : N -> bytes) (parse_float : bytes -> option N)
  (float_roundtrip : forall x, is_nan_bits x = false ->
       format_float x <> [] /\ no_cr (format_float x) = true /\ parse_float (format_float x) = Some x)
  (f : frame) (hdr : bool) (doc : bytes) (e : bool) (chunks : list bytes) (term : rterm) :
  wf_frame f = true -> NoDup (col_names f) ->
  phys_premises e f = true ->
  frame_to_csv format_float f (mkToConf hdr None) = Ok doc ->
  Forall (fun c : bytes => c <> []) chunks -> concat chunks = doc -> (term = TEofSep \/ term = TEofWith) ->
  exists t o g,
    abs f = Ok t /\ observe_frame f = Ok o /\
    read_csv_buf atoi parse_float atob (read_conf_for e hdr o) chunks term = Ok g /\
    table_of (length (ix f)) g = norm_table e t.
Proof. exact (roundtrip_physical_wf format_float parse_float float_roundtrip f hdr doc e chunks term). Qed.
Print Assumptions C13_roundtrip_physical_wf.

(* the strconv premise (5) is satisfiable - so none of the theorems above is vacuous - and the theorems do not
   depend on how floats are printed: here with a stand-in formatter (the decimal digits of the bit pattern) a
   frame with +Inf, -0, 1.5, the largest subnormal and two NaN payloads goes through; Inf, -0 etc. come back
   bit-identical and both NaNs as the one NaN *)
Theorem C13_float_premise_satisfiable : forall x,
  is_nan_bits x = false ->
  toy_format x <> [] /\ no_cr (toy_format x) = true /\ toy_parse (toy_format x) = Some x.
Proof. exact toy_float_roundtrip. Qed.
Print Assumptions C13_float_premise_satisfiable.

Definition ex5_f : frame :=
  mkFrame [([120], FCol [0x7FF0000000000000; 0x8000000000000000; 0x3FF8000000000000; 0x000FFFFFFFFFFFFF;
                         0x7FF8000000000001; 0xFFF0000000000123]);
           ([115], SCol [Some [97]; None; Some []; Some [98]; Some [99]; Some [100]])]
          [5; 4; 3; 2; 1; 0]%nat false.
Definition ex5_doc : bytes :=
  Eval vm_compute in match frame_to_csv toy_format ex5_f (mkToConf true None) with Ok d => d | _ => [] end.
Definition ex5_o : CsvSpec.frame :=
  Eval vm_compute in match observe_frame ex5_f with Ok o => o | _ => [] end.
Definition ex5_g : CsvSpec.frame :=
  [([120], ColFloat [nan_bits; nan_bits; 0x000FFFFFFFFFFFFF; 0x3FF8000000000000; 0x8000000000000000;
                     0x7FF0000000000000]);
   ([115], ColString [Some [100]; Some [99]; Some [98]; Some []; Some []; Some [97]])].
Example C13_roundtrip_with_floats :
  wf_frame ex5_f = true /\ NoDup (col_names ex5_f) /\ phys_premises false ex5_f = true /\
  frame_to_csv toy_format ex5_f (mkToConf true None) = Ok ex5_doc /\
  observe_frame ex5_f = Ok ex5_o /\
  read_csv_buf atoi toy_parse atob (read_conf_for false true ex5_o) [ex5_doc] TEofWith = Ok ex5_g /\
  (exists t, abs ex5_f = Ok t /\ table_of 6 ex5_g = norm_table false t).
Proof.
  assert (wf_frame ex5_f = true) as W by (vm_compute; reflexivity).
  assert (NoDup (col_names ex5_f)) as ND by (repeat constructor; cbn; intuition discriminate).
  assert (phys_premises false ex5_f = true) as P by (vm_compute; reflexivity).
  assert (frame_to_csv toy_format ex5_f (mkToConf true None) = Ok ex5_doc) as D by (vm_compute; reflexivity).
  assert (observe_frame ex5_f = Ok ex5_o) as O by (vm_compute; reflexivity).
  assert (read_csv_buf atoi toy_parse atob (read_conf_for false true ex5_o) [ex5_doc] TEofWith = Ok ex5_g) as R
    by (vm_compute; reflexivity).
  repeat (split; [assumption|]).
  destruct (C13_roundtrip_physical_wf toy_format toy_parse toy_float_roundtrip ex5_f true ex5_doc false
              [ex5_doc] TEofWith W ND P D) as (t & o & g & H1 & H2 & H3 & H4).
  - repeat constructor. discriminate.
  - cbn [concat]. apply app_nil_r.
  - right. reflexivity.
  - exists t. split; [exact H1|]. rewrite O in H2. inversion H2; subst o. rewrite R in H3. inversion H3; subst g.
    exact H4.
Qed.

(* premises satisfiable: five columns (int, float with two NaN payloads, string with null / empty / quote-comma-LF
   / leading blank, strict enum with a null and a value that needs quoting, enum without values = all null),
   row index [2; 0; 0; 1] (a permutation with a repeated and a dropped row); EmptyNull; written with
   Columns(reversed order) and without header; read back from chunks of 1, 2, 3, ... bytes *)
Definition ex3_f : frame :=
  mkFrame [([73], ICol [7; -3; 42; 0]%Z);
           ([70], FCol [nan_bits; nan_bits; 0x7FF8000000000000; nan_bits]);
           ([83], SCol [None; Some [34; 44; 10]; Some []; Some [32; 120]]);
           ([69], ECol [1; 255; 0; 1] [[120]; [121; 44]] true);
           ([68], ECol [255; 255; 255; 255] [] false)]
          [2; 0; 0; 1]%nat false.
Definition ex3_order : list bytes := [[68]; [69]; [83]; [70]; [73]].
Definition ex3_doc : bytes :=
  Eval vm_compute in match frame_to_csv (fun _ => []) ex3_f (mkToConf false (Some ex3_order)) with Ok d => d | _ => [] end.
Definition ex3_chunks : list bytes := Eval vm_compute in ex_chunks 100 1 ex3_doc.

Example C13_roundtrip_physical_example :
  (exists t, abs ex3_f = Ok t) /\ NoDup (col_names ex3_f) /\ phys_premises true ex3_f = true /\
  has_dup ex3_order = false /\
  frame_to_csv (fun _ => []) ex3_f (mkToConf false (Some ex3_order)) = Ok ex3_doc /\
  Forall (fun c : bytes => c <> []) ex3_chunks /\ concat ex3_chunks = ex3_doc /\
  option_map (table_of 4)
    (match observe_frame ex3_f with
     | Ok o => match iter_cols o (mkToConf false (Some ex3_order)) with
               | Ok wf => match read_csv_buf atoi (fun _ => None) atob (read_conf_for true false wf) ex3_chunks TEofSep with
                          | Ok g => Some g | _ => None end
               | _ => None end
     | _ => None end)
  = option_map (norm_table true)
      (match abs ex3_f with Ok t => tselect t ex3_order | _ => None end).
Proof.
  split; [eexists; vm_compute; reflexivity|].
  split; [repeat constructor; cbn; intuition discriminate|].
  repeat split; try (vm_compute; reflexivity).
  vm_compute. repeat constructor; discriminate.
Qed.

Example C13_physical_premises_on_the_table_example :
  exists t, abs ex3_f = Ok t /\ cols ex3_f <> [] /\
    Forall (fun n => CsvRead.check_name n = true /\ no_cr n = true) (col_names ex3_f) /\
    Forall (Forall cell_rt_ok) (trows t) /\
    Forall (fun nc => enum_null_ok true (ix ex3_f) (snd nc)) (cols ex3_f) /\
    enum_tables_nodup ex3_f = true.
Proof.
  eexists. split; [vm_compute; reflexivity|]. split; [discriminate|]. split; [|split; [|split]].
  - repeat constructor.
  - repeat constructor.
  - repeat constructor; cbn; auto; unfold enum_max_cardinality; lia.
  - vm_compute. reflexivity.
Qed.

(* ---- each premise is needed *)
Definition readback_of (e : bool) (f : frame) (tc : to_conf) : outcome CsvSpec.frame :=
  do o <- observe_frame f; do wf <- iter_cols o tc; do doc <- frame_to_csv (fun _ => []) f tc;
  read_csv_spec atoi (fun _ => None) atob (read_conf_for e (tc_header tc) wf) doc.

(* (2) a repeated column name: ReadCSV reports "Duplicate columns detected" *)
Example C13_needs_unique_names :
  readback_of false (mkFrame [([97], ICol [1; 2]%Z); ([97], ICol [10; 20]%Z)] [0; 1]%nat false) (mkToConf true None) = Fail.
Proof. vm_compute. reflexivity. Qed.

(* (3) CR: a cell of the LAST column that ends in CR loses it (the writer quotes the field and keeps the CR, the
   reader's Next() trims a CR in front of the row's line feed even when it was quoted); in the model a CR
   anywhere else survives - the premise "no CR in strings" of the property is stronger than what is needed *)
Example C13_needs_no_trailing_cr :
  readback_of false (mkFrame [([97], SCol [Some [120; 13; 122]]); ([98], SCol [Some [120; 13]])] [0]%nat false)
              (mkToConf true None)
  = Ok [([97], ColString [Some [120; 13; 122]]); ([98], ColString [Some [120]])].
Proof. vm_compute. reflexivity. Qed.

(* (3) at least one column: a frame without columns writes an empty header line (or nothing at all) *)
Example C13_needs_a_column :
  readback_of false (mkFrame [] [] false) (mkToConf true None) = Fail /\
  readback_of false (mkFrame [] [] false) (mkToConf false None) = Fail.
Proof. vm_compute. split; reflexivity. Qed.

(* (3) a null cell in a strict enum column whose values do not include "": without EmptyNull the empty field is
   an unknown value for the strict factory; with EmptyNull it is null again *)
Example C13_needs_readable_enum_null :
  let f := mkFrame [([69], ECol [0; 255] [[120]] true)] [0; 1]%nat false in
  readback_of false f (mkToConf true None) = Fail /\
  readback_of true f (mkToConf true None) = Ok [([69], ColEnum [[120]] [Some [120]; None])].
Proof. vm_compute. split; reflexivity. Qed.

(* (3) an enum column whose value table lists a value twice (only a frame NOT built by the enum factory has one):
   ToCSV writes it, but ReadCSV given that table as EnumVals rejects the declaration; read back with the type only
   (no EnumVals) the column is accepted and gets the re-derived table *)
Example C13_needs_distinct_enum_values :
  let f := mkFrame [([69], ECol [0; 1; 2] [[120]; [121]; [120]] true)] [0; 1; 2]%nat false in
  phys_premises false f = false /\
  readback_of false f (mkToConf true None) = Fail /\
  (do o <- observe_frame f; do doc <- frame_to_csv (fun _ => []) f (mkToConf true None);
   read_csv_spec atoi (fun _ => None) atob (read_conf_for false true (forget_frame o)) doc)
  = Ok [([69], ColEnum [[120]; [121]] [Some [120]; Some [121]; Some [120]])].
Proof. vm_compute. repeat split. Qed.

(* (4) Columns(order) with a repeated name passes ToCSV's checks and writes that column twice *)
Example C13_needs_order_without_repetition :
  let f := mkFrame [([97], ICol [1; 2]%Z); ([98], ICol [10; 20]%Z)] [0; 1]%nat false in
  readback_of false f (mkToConf true (Some [[97]; [97]])) = Fail /\
  readback_of false f (mkToConf true (Some [[98]; [97]])) = Ok [([98], ColInt [10; 20]%Z); ([97], ColInt [1; 2]%Z)].
Proof. vm_compute. split; reflexivity. Qed.

(* Still not proved: strconv.FormatFloat / ParseFloat (premise (5)) are not modelled here - C04 proves the ryu
   side (shortest digits that read back) for the 'f' format used by ToJSON, the link to strconv's own
   implementation is by the engines; IgnoreEmptyLines = true (C13_one_column_empty_cell shows why the round trip
   needs it off for one-column frames); delimiters other than ',' (ToCSV always writes ','). *)
