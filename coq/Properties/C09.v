(* Property C09 — all observations of a frame agree and Equals means cell-wise equality. *)
From QF Require Import Base.Prelude Model.Frame Model.Filter Model.Ops Proofs.EqualsProofs.
Local Open Scope nat_scope.

(* Column.Equals reads the two columns through their OWN row indexes and answers exactly "same column type and
   pairwise equal cells in row order", whatever the two indexes are (physical layouts may differ arbitrarily) *)
Theorem C09_column_equals c o index oindex xs ys :
  length index = length oindex ->
  omap (cell_at c) index = Ok xs -> omap (cell_at o) oindex = Ok ys ->
  col_equals c index o oindex = Ok (ctype_eqb (col_type c) (col_type o) && list_eqb cell_eqb xs ys).
Proof. exact (col_equals_spec c o index oindex xs ys). Qed.
Print Assumptions C09_column_equals.

(* the cell relation (null = null, NaN = NaN, enum cells by string) is an equivalence, hence so is Equals *)
Theorem C09_cell_refl c : cell_eqb c c = true.
Proof. exact (cell_eqb_refl c). Qed.
Print Assumptions C09_cell_refl.
Theorem C09_cell_sym a b : cell_eqb a b = cell_eqb b a.
Proof. exact (cell_eqb_sym a b). Qed.
Print Assumptions C09_cell_sym.
Theorem C09_cell_trans a b c : cell_eqb a b = true -> cell_eqb b c = true -> cell_eqb a c = true.
Proof. exact (cell_eqb_trans a b c). Qed.
Print Assumptions C09_cell_trans.
Theorem C09_rows_sym xs ys : list_eqb cell_eqb xs ys = list_eqb cell_eqb ys xs.
Proof. exact (list_eqb_cell_sym xs ys). Qed.
Print Assumptions C09_rows_sym.
Theorem C09_rows_trans xs ys zs :
  list_eqb cell_eqb xs ys = true -> list_eqb cell_eqb ys zs = true -> list_eqb cell_eqb xs zs = true.
Proof. exact (list_eqb_cell_trans xs ys zs). Qed.
Print Assumptions C09_rows_trans.

(* every frame whose table can be read is Equal to itself *)
Theorem C09_equals_refl f t : abs f = Ok t -> equals f f = Ok true.
Proof. exact (equals_refl f t). Qed.
Print Assumptions C09_equals_refl.

(* Non-vacuity: two frames with different physical layout and index but the same logical rows (NaN payloads and
   the sign of zero differ) are Equal; changing null to "" is noticed *)
Example C09_equal_example :
  let f := mkFrame [([65%N], FCol [0x7FF8000000000001; 0; 0x3FF0000000000000]%N); ([66%N], SCol [None; Some []; Some [97%N]])] [2; 0; 1] false in
  let g := mkFrame [([65%N], FCol [0x3FF0000000000000; 0x7FF8000000000002; 0x8000000000000000]%N); ([66%N], SCol [Some [97%N]; None; Some []])] [0; 1; 2] false in
  let h := mkFrame [([65%N], FCol [0x3FF0000000000000; 0x7FF8000000000002; 0x8000000000000000]%N); ([66%N], SCol [Some [97%N]; Some []; Some []])] [0; 1; 2] false in
  equals f g = Ok true /\ equals g f = Ok true /\ equals f h = Ok false.
Proof. vm_compute. auto. Qed.
