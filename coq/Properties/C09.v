(* Property C09 — all observations of a frame agree and Equals means cell-wise equality. *)
From QF Require Import Base.Prelude.
From QF Require Import Model.Utf8 Model.CsvSpec Model.CsvWrite Model.Json Model.Observe Proofs.JsonProofs.
(* Model.Frame last: [frame], [frame_len] mean the physical frame of Model/Frame.v *)
From QF Require Import Model.Frame Model.Filter Model.Ops Model.TableSpec Proofs.EqualsProofs.
From QF Require Import Proofs.EnumProofs Proofs.ObserveProofs.
Local Open Scope nat_scope.

(* Column.Equals reads the two columns through their OWN row indexes and answers exactly "same column type and
   pairwise equal cells in row order", whatever the two indexes are (physical layouts may differ arbitrarily) *)
Theorem C09_column_equals c o index oindex xs ys :
  length index = length oindex ->
  omap (cell_at c) index = Ok xs -> omap (cell_at o) oindex = Ok ys ->
  col_equals c index o oindex = Ok (ctype_eqb (col_type c) (col_type o) && list_eqb cell_eqb xs ys).
Proof. exact (col_equals_spec c o index oindex xs ys). Qed.
Print Assumptions C09_column_equals.

(* the cell relation (null = null, NaN = NaN, enum cells by string) is an equivalence, hence so is Equals *)
Theorem C09_cell_refl c : cell_eqb c c = true.
Proof. exact (cell_eqb_refl c). Qed.
Print Assumptions C09_cell_refl.
Theorem C09_cell_sym a b : cell_eqb a b = cell_eqb b a.
Proof. exact (cell_eqb_sym a b). Qed.
Print Assumptions C09_cell_sym.
Theorem C09_cell_trans a b c : cell_eqb a b = true -> cell_eqb b c = true -> cell_eqb a c = true.
Proof. exact (cell_eqb_trans a b c). Qed.
Print Assumptions C09_cell_trans.
Theorem C09_rows_sym xs ys : list_eqb cell_eqb xs ys = list_eqb cell_eqb ys xs.
Proof. exact (list_eqb_cell_sym xs ys). Qed.
Print Assumptions C09_rows_sym.
Theorem C09_rows_trans xs ys zs :
  list_eqb cell_eqb xs ys = true -> list_eqb cell_eqb ys zs = true -> list_eqb cell_eqb xs zs = true.
Proof. exact (list_eqb_cell_trans xs ys zs). Qed.
Print Assumptions C09_rows_trans.

(* every frame whose table can be read is Equal to itself *)
Theorem C09_equals_refl f t : abs f = Ok t -> equals f f = Ok true.
Proof. exact (equals_refl f t). Qed.
Print Assumptions C09_equals_refl.

(* Non-vacuity: two frames with different physical layout and index but the same logical rows (NaN payloads and
   the sign of zero differ) are Equal; changing null to "" is noticed *)
Example C09_equal_example :
  let f := mkFrame [([65%N], FCol [0x7FF8000000000001; 0; 0x3FF0000000000000]%N); ([66%N], SCol [None; Some []; Some [97%N]])] [2; 0; 1] false in
  let g := mkFrame [([65%N], FCol [0x3FF0000000000000; 0x7FF8000000000002; 0x8000000000000000]%N); ([66%N], SCol [Some [97%N]; None; Some []])] [0; 1; 2] false in
  let h := mkFrame [([65%N], FCol [0x3FF0000000000000; 0x7FF8000000000002; 0x8000000000000000]%N); ([66%N], SCol [Some [97%N]; Some []; Some []])] [0; 1; 2] false in
  equals f g = Ok true /\ equals g f = Ok true /\ equals f h = Ok false.
Proof. vm_compute. auto. Qed.

(* ================================================================== wave 2: Equals at frame level *)

(* the two example frames used below: different physical layout and row index, same logical rows up to the
   cell relation (NaN payloads, sign of zero, enum value tables differ) *)
Definition ex_f : frame :=
  mkFrame [([65%N], FCol [0x7FF8000000000001; 0; 0x3FF0000000000000]%N); ([66%N], SCol [None; Some []; Some [97%N]]);
           ([67%N], ECol [1; 255; 0]%N [[120%N]; [121%N]] true)] [2; 0; 1] false.
Definition ex_g : frame :=
  mkFrame [([65%N], FCol [0x3FF0000000000000; 0x7FF8000000000002; 0x8000000000000000]%N); ([66%N], SCol [Some [97%N]; None; Some []]);
           ([67%N], ECol [2; 0; 255]%N [[121%N]; [122%N]; [120%N]] false)] [0; 1; 2] false.
Example C09_ex_wf : wf_frame ex_f = true /\ wf_frame ex_g = true /\ equals ex_f ex_g = Ok true.
Proof. vm_compute. auto. Qed.

(* every well-formed frame (equal physical column lengths, index in range, enum ranks valid) has a table *)
Theorem C09_wf_readable f : wf_frame f = true -> exists t, abs f = Ok t.
Proof. exact (wf_abs f). Qed.
Print Assumptions C09_wf_readable.

(* Equals computes exactly the table equality [tequal] (Model/TableSpec.v, the oracle the frameops engine
   runs) of the two logical tables: no fault, whatever the two physical layouts and row indexes are *)
Theorem C09_equals_table f g tf tg : abs f = Ok tf -> abs g = Ok tg -> equals f g = Ok (tequal tf tg).
Proof. exact (equals_spec f g tf tg). Qed.
Print Assumptions C09_equals_table.

(* Equals(a, b) is true EXACTLY when a and b have the same column names in the same order, the same column
   types and pairwise equal cells (cell_eq: null = null, NaN = NaN, -0 = +0, enum cells by their string value:
   the enum value tables and strictness are not compared) *)
Theorem C09_equals_iff f g tf tg :
  abs f = Ok tf -> abs g = Ok tg ->
  (equals f g = Ok true <->
   tnames tf = tnames tg /\ ttypes tf = ttypes tg /\ Forall2 (Forall2 cell_eq) (trows tf) (trows tg)).
Proof. exact (equals_iff f g tf tg). Qed.
Print Assumptions C09_equals_iff.

Theorem C09_equals_iff_wf f g :
  wf_frame f = true -> wf_frame g = true ->
  exists tf tg, abs f = Ok tf /\ abs g = Ok tg /\
    (equals f g = Ok true <->
     tnames tf = tnames tg /\ ttypes tf = ttypes tg /\ Forall2 (Forall2 cell_eq) (trows tf) (trows tg)).
Proof. exact (equals_iff_wf f g). Qed.
Print Assumptions C09_equals_iff_wf.

(* hence, on well-formed frames, Equals never faults and is reflexive, symmetric and transitive *)
Theorem C09_equals_total f g : wf_frame f = true -> wf_frame g = true -> exists b, equals f g = Ok b.
Proof. exact (equals_total_wf f g). Qed.
Print Assumptions C09_equals_total.
Theorem C09_equals_refl_wf f : wf_frame f = true -> equals f f = Ok true.
Proof. exact (equals_refl_wf f). Qed.
Print Assumptions C09_equals_refl_wf.
Theorem C09_equals_sym f g : wf_frame f = true -> wf_frame g = true -> equals f g = equals g f.
Proof. exact (equals_sym_wf f g). Qed.
Print Assumptions C09_equals_sym.
Theorem C09_equals_trans f g h :
  wf_frame f = true -> wf_frame g = true -> wf_frame h = true ->
  equals f g = Ok true -> equals g h = Ok true -> equals f h = Ok true.
Proof. exact (equals_trans_wf f g h). Qed.
Print Assumptions C09_equals_trans.

(* ================================================================== wave 2: the observers agree
   Every observer is characterised as a function of the logical table [abs f] (rows in index order); the
   observers are the executable definitions of Model/Observe.v on top of Model/CsvWrite.v and Model/Json.v. *)

Example C09_ex_premises :
  exists t, abs ex_f = Ok t /\ NoDup (col_names ex_f) /\ ferr ex_f = false
            /\ tcolumn t [67%N] = Some (TEnum, [CEnum (Some [120%N]); CEnum (Some [121%N]); CEnum None]).
Proof.
  eexists. split; [vm_compute; reflexivity|]. split; [|split; reflexivity].
  repeat constructor; simpl; intuition discriminate.
Qed.

(* Len() = number of rows of the table (for a frame without Err; with Err it is -1 by definition) *)
Theorem C09_len f t : ferr f = false -> abs f = Ok t -> frame_len f = Z.of_nat (length (trows t)).
Proof. exact (len_spec f t). Qed.
Print Assumptions C09_len.

(* typed views: XView(name).Slice() is exactly the column the name denotes in the table (tcolumn: the LAST
   column with that name), in row order *)
Theorem C09_view_slice f t name ty cells :
  abs f = Ok t -> tcolumn t name = Some (ty, cells) -> frame_view_slice f ty name = Ok cells.
Proof. exact (view_slice_spec f t name ty cells). Qed.
Print Assumptions C09_view_slice.

(* XView(name).Len() = number of rows = length of the column *)
Theorem C09_view_len f t name ty cells :
  abs f = Ok t -> tcolumn t name = Some (ty, cells) ->
  frame_view_len f ty name = Ok (Z.of_nat (length (trows t))) /\ length cells = length (trows t).
Proof. exact (view_len_spec f t name ty cells). Qed.
Print Assumptions C09_view_len.

(* XView(name).ItemAt(i) = the i-th cell of that column; a Go panic exactly outside 0 <= i < Len *)
Theorem C09_view_item f t name ty cells i :
  abs f = Ok t -> tcolumn t name = Some (ty, cells) ->
  frame_view_item f ty name i = if (i <? 0)%Z then Panic else of_option (nth_error cells (Z.to_nat i)).
Proof. exact (view_item_spec f t name ty cells i). Qed.
Print Assumptions C09_view_item.

(* reading ItemAt(0) .. ItemAt(Len-1) gives what Slice gives *)
Theorem C09_view_items_slice v r : view_slice v = Ok r -> view_items v = Ok r.
Proof. exact (view_items_slice v r). Qed.
Print Assumptions C09_view_items_slice.

(* a view of another type or of an unknown name is an error *)
Theorem C09_view_wrong_type f t name ty cells ty' :
  abs f = Ok t -> tcolumn t name = Some (ty, cells) -> ty' <> ty -> get_view f ty' name = Fail.
Proof. exact (view_wrong_type f t name ty cells ty'). Qed.
Print Assumptions C09_view_wrong_type.
Theorem C09_view_unknown f t name ty : abs f = Ok t -> tcolumn t name = None -> get_view f ty name = Fail.
Proof. exact (view_unknown f t name ty). Qed.
Print Assumptions C09_view_unknown.

(* ToCSV (without the Columns option, writer that never fails): the records handed to encoding/csv are the
   header (if requested) followed by one record per row of the table, in row order, whose fields are the
   StringAt renderings [csv_cell] of the cells, in column order - for every float formatter.
   The frame-level ToCSV model of Model/CsvWrite.v takes the frame as read through the typed views
   (Model/Observe.v observe_frame = what engine csv reads from the implementation); so this is also the
   agreement views <-> ToCSV.
   SURPRISING PREMISE: NoDup (col_names f).  ToCSV resolves every column BY NAME; on a frame with a repeated
   column name it writes the last column of that name in every position of that name (see the example below
   and the report: Select("a","a") followed by Apply into "a" reaches such a frame). *)
Theorem C09_to_csv_records ff f t hdr :
  abs f = Ok t -> NoDup (col_names f) -> (cols f = [] -> ix f = []) ->
  frame_to_csv_records ff f (mkToConf hdr None)
  = Ok (if hdr then tnames t :: map (map (csv_cell ff)) (trows t) else map (map (csv_cell ff)) (trows t)).
Proof. exact (to_csv_records_spec ff f t hdr). Qed.
Print Assumptions C09_to_csv_records.

Theorem C09_to_csv ff f t hdr :
  abs f = Ok t -> NoDup (col_names f) -> (cols f = [] -> ix f = []) ->
  frame_to_csv ff f (mkToConf hdr None)
  = Ok (concat (map (writer_write 44 false)
                    (if hdr then tnames t :: map (map (csv_cell ff)) (trows t)
                     else map (map (csv_cell ff)) (trows t)))).
Proof. exact (to_csv_spec ff f t hdr). Qed.
Print Assumptions C09_to_csv.

(* the third premise holds for every well-formed frame *)
Theorem C09_wf_no_rows_without_columns f : wf_frame f = true -> cols f = [] -> ix f = [].
Proof. exact (wf_no_cols f). Qed.
Print Assumptions C09_wf_no_rows_without_columns.

(* the premise NoDup cannot be dropped: on this frame (reachable in the implementation, see the report)
   ToCSV writes 10,10 / 20,20 while the table, ToJSON and Equals see 1,10 / 2,20 *)
Example C09_to_csv_duplicate_names :
  let f := mkFrame [([97%N], ICol [1; 2]%Z); ([97%N], ICol [10; 20]%Z)] [0; 1] false in
  frame_to_csv_records (fun _ => []) f (mkToConf false None) = Ok [[[49; 48]; [49; 48]]; [[50; 48]; [50; 48]]]%N
  /\ option_map trows (match abs f with Ok t => Some t | _ => None end)
     = Some [[CInt 1; CInt 10]; [CInt 2; CInt 20]]%Z.
Proof. vm_compute. auto. Qed.

(* ToJSON (writer that never fails) never fails and performs the Write calls "[", then one object per row of
   the table in row order (a leading comma from the second on), then "]"; every object lists the columns in
   column order with key = QuotedBytes(name) and value = the AppendByteStringAt rendering [json_cell] of the
   cell - for every float formatter.  Stated at the interface of Model/Json.v (to_json takes the rendered
   cells); frame_to_json (Model/Observe.v) renders them from the physical frame as qframe.go does. *)
Theorem C09_to_json af f t :
  abs f = Ok t ->
  exists qnames cells,
    omap quoted_bytes (tnames t) = Ok qnames
    /\ Forall2 (Forall2 (fun c b => json_cell af c = Ok b)) (trows t) cells
    /\ frame_to_json af f = Ok (doc_text qnames cells)
    /\ frame_to_json_writes af f
       = Ok ([[c_lbracket]]
             ++ map (fun ir => (if (0 <? fst ir)%nat then [c_comma] else []) ++ object_text qnames (snd ir))
                    (combine (seq 0 (length cells)) cells)
             ++ [[c_rbracket]]).
Proof. exact (to_json_spec af f t). Qed.
Print Assumptions C09_to_json.

(* ================================================================== wave 2: rebuilt with New is Equal *)

(* [rebuild f] (Model/Observe.v) = New(data, ColumnOrder(names of f), Enums(value lists of f's enum columns))
   where data maps every column name to the Slice() of the typed view of that name ([]int, []float64, []bool,
   []*string).  For every well-formed frame with unique legal column names whose enum columns have value tables
   without a repeated value (enum_tables_nodup: what every column built by the enum factory has, C17_table_nodup;
   New rejects an Enums entry that lists a value twice, C17_duplicate_declaration_rejected): New accepts, the new
   frame has no Err, the identity index, EXACTLY the logical table of f - and therefore Equals holds in both
   directions.  (Enum ranks and value tables of the rebuilt frame may differ from f's: only the strings count.) *)
Theorem C09_rebuild f t :
  wf_frame f = true -> abs f = Ok t -> NoDup (col_names f) -> forallb check_name (col_names f) = true ->
  enum_tables_nodup f = true ->
  exists g, rebuild f = Ok g /\ ferr g = false /\ ix g = seq 0 (length (trows t)) /\ abs g = Ok t
            /\ equals g f = Ok true /\ equals f g = Ok true.
Proof. exact (rebuild_spec f t). Qed.
Print Assumptions C09_rebuild.

Example C09_rebuild_example :
  wf_frame ex_f = true /\ forallb check_name (col_names ex_f) = true /\ enum_tables_nodup ex_f = true
  /\ (do g <- rebuild ex_f; equals g ex_f) = Ok true
  /\ (do g <- rebuild ex_f; Ok (cols g))
     = Ok [([65%N], FCol [0x3FF0000000000000; 0x7FF8000000000001; 0]%N); ([66%N], SCol [Some [97%N]; None; Some []]);
           ([67%N], ECol [0; 1; 255]%N [[120%N]; [121%N]] true)].
Proof. vm_compute. auto. Qed.

(* ================================================================== wave 2: operations are functions of the table
   Two frames with the same logical table and the same Err state - e.g. a frame and its rebuilt twin of
   C09_rebuild, whatever their physical layouts and indexes - give results with the same table and Err state.
   Proved by exhibiting the table-level function (Model/TableSpec.v: tslice, tselect - the oracles the frameops
   engine runs). *)

Example C09_congr_premises :
  exists t, abs ex_f = Ok t /\ (do g <- rebuild ex_f; abs g) = Ok t /\ ferr ex_f = false
            /\ cols ex_f <> (match rebuild ex_f with Ok g => cols g | _ => [] end).
Proof. eexists. split; [vm_compute; reflexivity|]. split; [vm_compute; reflexivity|]. split; [reflexivity|]. vm_compute. discriminate. Qed.

(* Slice(a, b) on a frame without Err: Err iff a < 0 or b < a or b > number of rows, the table is untouched in
   that case, and otherwise exactly rows a .. b-1 *)
Theorem C09_slice_table f a b t :
  abs f = Ok t -> ferr f = false ->
  ferr (slice f a b) = slice_bad t a b
  /\ abs (slice f a b) = Ok (if slice_bad t a b then t else tslice t (Z.to_nat a) (Z.to_nat b)).
Proof. exact (slice_table f a b t). Qed.
Print Assumptions C09_slice_table.

Theorem C09_slice_congr f g a b t :
  abs f = Ok t -> abs g = Ok t -> ferr f = ferr g ->
  ferr (slice f a b) = ferr (slice g a b) /\ abs (slice f a b) = abs (slice g a b).
Proof. exact (slice_congr f g a b t). Qed.
Print Assumptions C09_slice_congr.

(* Slice also respects Equals itself (tables equal only up to the cell relation) *)
Theorem C09_slice_equals f g a b tf tg :
  abs f = Ok tf -> abs g = Ok tg -> ferr f = false -> ferr g = false ->
  equals f g = Ok true ->
  ferr (slice f a b) = ferr (slice g a b) /\ equals (slice f a b) (slice g a b) = Ok true.
Proof. exact (slice_equals f g a b tf tg). Qed.
Print Assumptions C09_slice_equals.
Example C09_slice_equals_example :
  equals ex_f ex_g = Ok true /\ equals (slice ex_f 1 3) (slice ex_g 1 3) = Ok true
  /\ ix (slice ex_f 1 3) <> ix (slice ex_g 1 3).
Proof. vm_compute. repeat split. discriminate. Qed.

(* Select(names) on a frame without Err = tselect of the table (None: an unknown name, Err is set and the
   table untouched) *)
Theorem C09_select_table f names t :
  abs f = Ok t -> ferr f = false ->
  match tselect t names with
  | None => ferr (select f names) = true /\ abs (select f names) = Ok t
  | Some t' => ferr (select f names) = false /\ abs (select f names) = Ok t'
  end.
Proof. exact (select_table f names t). Qed.
Print Assumptions C09_select_table.

Theorem C09_select_congr f g names t :
  abs f = Ok t -> abs g = Ok t -> ferr f = ferr g ->
  ferr (select f names) = ferr (select g names) /\ abs (select f names) = abs (select g names).
Proof. exact (select_congr f g names t). Qed.
Print Assumptions C09_select_congr.

Theorem C09_drop_congr f g names t :
  abs f = Ok t -> abs g = Ok t -> ferr f = ferr g ->
  ferr (drop f names) = ferr (drop g names) /\ abs (drop f names) = abs (drop g names).
Proof. exact (drop_congr f g names t). Qed.
Print Assumptions C09_drop_congr.

(* setColumn with a legal name replaces the column in its position or appends it last (tset_col) *)
Theorem C09_set_column_table f name c t cells :
  abs f = Ok t -> omap (cell_at c) (ix f) = Ok cells -> check_name name = true ->
  ferr (set_column f name c) = ferr f
  /\ abs (set_column f name c) = Ok (tset_col t name (col_type c) cells).
Proof. exact (set_column_table f name c t cells). Qed.
Print Assumptions C09_set_column_table.

(* Copy(dst, src) = tcopy of the table (Proofs/ObserveProofs.v: unknown source or illegal destination name =
   Err and the table untouched; dst = src = unchanged; else tset_col with the source column) *)
Theorem C09_copy_table f dst src t :
  abs f = Ok t -> ferr f = false ->
  match tcopy t dst src with
  | None => ferr (copy f dst src) = true /\ abs (copy f dst src) = Ok t
  | Some t' => ferr (copy f dst src) = false /\ abs (copy f dst src) = Ok t'
  end.
Proof. exact (copy_table f dst src t). Qed.
Print Assumptions C09_copy_table.

Theorem C09_copy_congr f g dst src t :
  abs f = Ok t -> abs g = Ok t -> ferr f = ferr g ->
  ferr (copy f dst src) = ferr (copy g dst src) /\ abs (copy f dst src) = abs (copy g dst src).
Proof. exact (copy_congr f g dst src t). Qed.
Print Assumptions C09_copy_congr.

(* Apply with one func(T) U instruction (the function as a finite table, as the frameops engine records it):
   the result is tset_col of the function's values on the cells of the source column, in row order.
   Premises a reader may find surprising: NoDup (ix f) and wf_frame f - the implementation writes results by
   PHYSICAL position, so a repeated index entry would be written twice (every index the implementation builds
   is duplicate-free: C01/C03). *)
Theorem C09_apply1_table ut f tin tout tbl dst src t ty cells vals :
  abs f = Ok t -> ferr f = false -> wf_frame f = true -> NoDup (ix f) ->
  tcolumn t src = Some (ty, cells) -> ctype_eqb (ftype_of ty) tin = true -> tout <> TEnum ->
  check_name dst = true ->
  omap (tbl1 tbl) cells = Ok vals -> Forall (fun y => cell_type_ok tout y = true) vals ->
  exists g, apply1 ut f (F1 tin tout tbl) dst src = Ok g /\ ferr g = false
            /\ abs g = Ok (tset_col t dst tout vals).
Proof. exact (apply1_table ut f tin tout tbl dst src t ty cells vals). Qed.
Print Assumptions C09_apply1_table.

Theorem C09_apply1_congr ut f g tin tout tbl dst src t ty cells vals :
  abs f = Ok t -> abs g = Ok t -> ferr f = false -> ferr g = false ->
  wf_frame f = true -> wf_frame g = true -> NoDup (ix f) -> NoDup (ix g) ->
  tcolumn t src = Some (ty, cells) -> ctype_eqb (ftype_of ty) tin = true -> tout <> TEnum ->
  check_name dst = true ->
  omap (tbl1 tbl) cells = Ok vals -> Forall (fun y => cell_type_ok tout y = true) vals ->
  exists f' g', apply1 ut f (F1 tin tout tbl) dst src = Ok f' /\ apply1 ut g (F1 tin tout tbl) dst src = Ok g'
                /\ ferr f' = ferr g' /\ abs f' = abs g'.
Proof. exact (apply1_congr ut f g tin tout tbl dst src t ty cells vals). Qed.
Print Assumptions C09_apply1_congr.

Example C09_apply1_example :
  let f := mkFrame [([65%N], ICol [10; 20; 30; 40]%Z)] [2; 0; 3] false in
  let tbl := [(CInt 30, CStr (Some [51%N])); (CInt 10, CStr None); (CInt 40, CStr (Some [52%N]))]%Z in
  wf_frame f = true /\ NoDup (ix f)
  /\ (do t <- abs f; Ok (tcolumn t [65%N])) = Ok (Some (TInt, [CInt 30; CInt 10; CInt 40]%Z))
  /\ omap (tbl1 tbl) [CInt 30; CInt 10; CInt 40]%Z = Ok [CStr (Some [51%N]); CStr None; CStr (Some [52%N])]
  /\ (do g <- apply1 [] f (F1 TInt TString tbl) [66%N] [65%N]; do t <- abs g; Ok (trows t))
     = Ok [[CInt 30; CStr (Some [51%N])]; [CInt 10; CStr None]; [CInt 40; CStr (Some [52%N])]]%Z.
Proof.
  split; [reflexivity|]. split; [repeat constructor; simpl; intuition discriminate|]. vm_compute. auto.
Qed.

(* ================================================================== what is still a Definition
   The full congruence statement of the property: EVERY operation maps frames with the same table to frames
   with the same table.  Proved above for Slice, Select, Drop, Copy, setColumn and Apply with a func(T) U
   instruction; NOT proved here for Filter, the other Apply instruction kinds, FilteredApply, WithRowNums, Eval,
   Sort, Distinct, GroupBy/Aggregate (their table-level characterisations belong to C02/C03/C04/C05/C06/C07).
   The Definition below is the target shape for the operations of Model/Ops.v and Model/Filter.v only; it is NOT
   claimed to hold as written: the per-case oracle tables (upper-casing [ut], matchers [mt]) are consulted on
   physical data (e.g. on every entry of an enum value list), so totality of those tables on the strings of
   both frames would have to be added as a premise. *)
Definition C09_congruence_full_statement : Prop :=
  forall (op : frame -> outcome frame),
    (exists mt c, op = fun f => frame_filter mt f c)
    \/ (exists mt ut c is, op = fun f => filtered_apply mt ut f c is)
    \/ (exists ut is, op = fun f => apply ut f is)
    \/ (exists name, op = fun f => with_row_nums f name) ->
  forall f g t, wf_frame f = true -> wf_frame g = true -> NoDup (ix f) -> NoDup (ix g) ->
    abs f = Ok t -> abs g = Ok t -> ferr f = ferr g ->
    match op f, op g with
    | Ok f', Ok g' => ferr f' = ferr g' /\ abs f' = abs g'
    | Fail, Fail | Panic, Panic => True
    | _, _ => False
    end.

(* ================================================================== wave 3: congruence for the remaining operations
   (Proofs/CongruenceProofs.v).  Results are compared by
     same_result  : both panic, or both return frames with the same Err state AND the same logical table;
     same_visible : both panic, or both return frames with the same Err state and, without Err, the same logical
                    table (a frame with Err exposes nothing but its Err: Len = -1, every view is an error). *)
From QF Require Import Model.FilterSpec Proofs.FilterTypedFrame Proofs.OpsProofs2 Proofs.CongruenceProofs.

(* The statement kept above as C09_congruence_full_statement does NOT hold as written, and not only because of
   oracle totality: the logical table does not show the value list of an enum column, but Filter compares enum
   cells BY RANK.  Two frames with the same table, the enum values declared in opposite orders: *)
Definition C09_cf : frame := mkFrame [([69%N], ECol [0; 1]%N [[97%N]; [98%N]] false)] [0; 1] false.
Definition C09_cg : frame := mkFrame [([69%N], ECol [1; 0]%N [[98%N]; [97%N]] false)] [0; 1] false.
Theorem C09_congruence_full_statement_is_false : ~ C09_congruence_full_statement.
Proof.
  intro H.
  set (c := CLeaf (mkLeaf [69%N] (CmpName (bs 1 0x3c)) (AStr [98%N]) false)).
  assert (Hnd : NoDup [0; 1]) by (repeat constructor; simpl; intuition discriminate).
  specialize (H (fun f => frame_filter [] f c) (or_introl (ex_intro _ [] (ex_intro _ c eq_refl)))
                C09_cf C09_cg (mkTable [[69%N]] [TEnum] [[CEnum (Some [97%N])]; [CEnum (Some [98%N])]])
                eq_refl eq_refl Hnd Hnd eq_refl eq_refl eq_refl).
  vm_compute in H. destruct H as [_ H]. discriminate H.
Qed.
Print Assumptions C09_congruence_full_statement_is_false.

(* ---- Apply: every instruction kind (func() T, constants, column copies, func(T) U, func(T, T) T, the built in
   ToUpper, unsupported values), every program, sources and destinations overlapping arbitrarily.
   Premises a reader may find surprising: afn_wf (a recorded function's results have its declared Go type; no
   enum-typed function or constant exists) and upper_prog_okb - ToUpper on an ENUM column upper-cases the whole
   value list, also entries no row uses, which the logical table does not show: the oracle table must answer
   there (it holds for every program without ToUpper, C09_no_toupper_premise, and follows from the premise of
   C10_no_panic_apply, C09_tables_premise).  No premise about the function tables otherwise: where a recorded
   table lacks an entry BOTH runs panic. *)
Theorem C09_apply_congr ut f g t is :
  abs f = Ok t -> abs g = Ok t -> ferr f = ferr g ->
  wf_frame f = true -> wf_frame g = true -> NoDup (ix f) -> NoDup (ix g) ->
  forallb (fun i => afn_wf (ifn i)) is = true ->
  upper_prog_okb ut f is = true -> upper_prog_okb ut g is = true ->
  same_result (apply ut f is) (apply ut g is).
Proof. exact (apply_congr ut f g t is). Qed.
Print Assumptions C09_apply_congr.
Theorem C09_no_toupper_premise ut is f :
  forallb (fun i => no_builtin (ifn i)) is = true -> upper_prog_okb ut f is = true.
Proof. exact (no_builtin_upper_prog ut is f). Qed.
Print Assumptions C09_no_toupper_premise.
Theorem C09_tables_premise ut is f : NoPanicProofs.apply_tables_okb ut f is = true -> upper_prog_okb ut f is = true.
Proof. exact (apply_tables_upper_prog ut is f). Qed.
Print Assumptions C09_tables_premise.

(* the rebuilt twin of ex_f (C09_rebuild_example): other physical layout, identity index, same table *)
Definition ex_h : frame :=
  mkFrame [([65%N], FCol [0x3FF0000000000000; 0x7FF8000000000001; 0]%N); ([66%N], SCol [Some [97%N]; None; Some []]);
           ([67%N], ECol [0; 1; 255]%N [[120%N]; [121%N]] true)] [0; 1; 2] false.
Definition ex_ut : upper_table := [([97%N], [65%N]); ([120%N], [88%N]); ([121%N], [88%N]); ([], [])].
Definition ex_prog : list instr :=
  [mkInstr (FBuiltin name_ToUpper) [68%N] [67%N] [];
   mkInstr (FBuiltin name_ToUpper) [66%N] [66%N] [];
   mkInstr (F0Const (CInt 7)) [69%N] [] [];
   mkInstr (F0ColName [68%N]) [70%N] [] []].
Example C09_apply_congr_example :
  rebuild ex_f = Ok ex_h /\ abs ex_f = abs ex_h /\ wf_frame ex_f = true /\ wf_frame ex_h = true
  /\ forallb (fun i => afn_wf (ifn i)) ex_prog = true
  /\ upper_prog_okb ex_ut ex_f ex_prog = true /\ upper_prog_okb ex_ut ex_h ex_prog = true
  /\ (do r <- apply ex_ut ex_f ex_prog; do t <- abs r; Ok (map (fun row => skipn 3 row) (trows t)))
     = Ok [[CEnum (Some [88%N]); CInt 7; CEnum (Some [88%N])]; [CEnum (Some [88%N]); CInt 7; CEnum (Some [88%N])];
           [CEnum None; CInt 7; CEnum None]]%Z.
Proof. vm_compute. repeat split; reflexivity. Qed.

(* the premise upper_prog_okb cannot be dropped: same table, but the second frame's enum type has a value no row
   uses and the oracle table of the case does not list; the model (like a harness that recorded ToUpper only on
   the strings it saw) panics on one frame and not on the other *)
Example C09_toupper_unused_value :
  let f := mkFrame [([69%N], ECol [0; 0]%N [[97%N]] false)] [0; 1] false in
  let g := mkFrame [([69%N], ECol [1; 1]%N [[122%N]; [97%N]] false)] [1; 0] false in
  let is := [mkInstr (FBuiltin name_ToUpper) [70%N] [69%N] []] in
  let ut := [([97%N], [65%N])] in
  abs f = abs g /\ wf_frame f = true /\ wf_frame g = true
  /\ upper_prog_okb ut f is = true /\ upper_prog_okb ut g is = false
  /\ (do r <- apply ut f is; do t <- abs r; Ok (trows t)) = Ok [[CEnum (Some [97%N]); CEnum (Some [65%N])]; [CEnum (Some [97%N]); CEnum (Some [65%N])]]
  /\ apply ut g is = Panic.
Proof. vm_compute. repeat split; reflexivity. Qed.

(* ---- WithRowNums: no premise beyond the common ones *)
Theorem C09_with_row_nums_congr f g t name :
  abs f = Ok t -> abs g = Ok t -> ferr f = ferr g ->
  wf_frame f = true -> wf_frame g = true -> NoDup (ix f) -> NoDup (ix g) ->
  same_result (with_row_nums f name) (with_row_nums g name).
Proof. exact (with_row_nums_congr f g t name). Qed.
Print Assumptions C09_with_row_nums_congr.

(* ---- Filter, every clause tree: the executed model - generated kernels, shared masks, leaf batching, orFrames,
   the Not merge - is run on the two frames side by side.  Premises beyond the common ones: enum_metas (the enum
   columns have the same value lists and strictness - see the counterexample above for why that cannot be
   dropped) and enum_nodup_b (pairwise different enum values, what the enum factory guarantees: a string then
   has one rank).  No premise about recorded predicate / matcher tables (where one lacks an entry both runs
   panic), none about the number of rows, none about comparator names or argument kinds. *)
Theorem C09_filter_congr mt f g t c :
  abs f = Ok t -> abs g = Ok t -> ferr f = ferr g -> wf_frame f = true -> wf_frame g = true ->
  NoDup (ix f) -> NoDup (ix g) -> enum_metas f = enum_metas g -> enum_nodup_b f = true ->
  same_result (frame_filter mt f c) (frame_filter mt g c).
Proof. exact (fun H1 H2 H3 H4 H5 H6 H7 H8 H9 => proj2 (filter_congr_full mt f g t c H1 H2 H3 H4 H5 H6 H7 H8 H9)). Qed.
Print Assumptions C09_filter_congr.

(* the same as a corollary of the C02 theorem (model = row-wise specification), under that theorem's premises:
   kept because it is an independent derivation through the specification *)
Theorem C09_filter_congr_via_spec mt f g t c :
  abs f = Ok t -> abs g = Ok t ->
  c02_premises_b mt f c = true -> c02_premises_b mt g c = true -> trows t <> [] ->
  enum_metas f = enum_metas g ->
  same_visible (frame_filter mt f c) (frame_filter mt g c).
Proof. exact (fun Hf Hg P1 P2 Hne Hm => proj2 (filter_congr mt f g t c Hf Hg P1 P2 Hne Hm)). Qed.
Print Assumptions C09_filter_congr_via_spec.

(* the index Filter returns is duplicate free when the frame's is (needed by the Apply theorems downstream) *)
Theorem C09_filter_nodup mt c f r : NoDup (ix f) -> frame_filter mt f c = Ok r -> NoDup (ix r).
Proof. exact (frame_filter_nodup mt c f r). Qed.
Print Assumptions C09_filter_nodup.

Definition ex_clause : clause :=
  CAnd [CLeaf (mkLeaf [67%N] (CmpName (bs 1 0x3c)) (AStr [121%N]) false);
        CNot (CLeaf (mkLeaf [66%N] (CmpName name_isnull) ANil false))].
Example C09_filter_congr_example :
  c02_premises_b [] ex_f ex_clause = true /\ c02_premises_b [] ex_h ex_clause = true
  /\ enum_metas ex_f = enum_metas ex_h /\ enum_nodup_b ex_f = true
  /\ option_map ix (match frame_filter [] ex_f ex_clause with Ok r => Some r | _ => None end) = Some [2]
  /\ option_map ix (match frame_filter [] ex_h ex_clause with Ok r => Some r | _ => None end) = Some [0].
Proof. vm_compute. repeat split; reflexivity. Qed.

(* ---- FilteredApply: all rows of the result agree - the matching rows hold the program's values, the others
   what the implementation leaves there (zero values - also for a constant -, the copied column, "" for ToUpper
   into a string column, the upper-cased value for ToUpper into an enum column): whatever that is, it is the same
   function of the row in both frames *)
Theorem C09_filtered_apply_congr mt ut f g t c is :
  abs f = Ok t -> abs g = Ok t -> ferr f = ferr g -> wf_frame f = true -> wf_frame g = true ->
  NoDup (ix f) -> NoDup (ix g) -> enum_metas f = enum_metas g -> enum_nodup_b f = true ->
  forallb (fun i => afn_wf (ifn i)) is = true ->
  (forall ff, frame_filter mt f c = Ok ff -> upper_prog_okb ut (with_ix f (ix ff)) is = true) ->
  (forall gg, frame_filter mt g c = Ok gg -> upper_prog_okb ut (with_ix g (ix gg)) is = true) ->
  same_visible (filtered_apply mt ut f c is) (filtered_apply mt ut g c is).
Proof. exact (filtered_apply_congr_full mt ut f g t c is). Qed.
Print Assumptions C09_filtered_apply_congr.

Example C09_filtered_apply_congr_example :
  (forall ff, frame_filter [] ex_f ex_clause = Ok ff -> upper_prog_okb ex_ut (with_ix ex_f (ix ff)) ex_prog = true)
  /\ (forall gg, frame_filter [] ex_h ex_clause = Ok gg -> upper_prog_okb ex_ut (with_ix ex_h (ix gg)) ex_prog = true)
  /\ (do r <- filtered_apply [] ex_ut ex_f ex_clause ex_prog; do t <- abs r; Ok (map (fun row => skipn 1 row) (trows t)))
     = Ok [[CStr (Some [65%N]); CEnum (Some [120%N]); CEnum (Some [88%N]); CInt 7; CEnum (Some [88%N])];
           [CStr (Some []); CEnum (Some [121%N]); CEnum (Some [88%N]); CInt 0; CEnum (Some [88%N])];
           [CStr (Some []); CEnum None; CEnum None; CInt 0; CEnum None]]%Z
  /\ (do r <- filtered_apply [] ex_ut ex_f ex_clause ex_prog; abs r)
     = (do r <- filtered_apply [] ex_ut ex_h ex_clause ex_prog; abs r).
Proof.
  split; [intros ff H; vm_compute in H; inversion H; subst ff; vm_compute; reflexivity|].
  split; [intros gg H; vm_compute in H; inversion H; subst gg; vm_compute; reflexivity|].
  split; vm_compute; reflexivity.
Qed.

(* ---- Eval: every expression tree (valid or not), every destination, proved by running the two executions side
   by side: temporaries are named after the column NAMES only, which the two frames share, so both runs create,
   find, capture and drop the same names.  Hence NONE of the premises of the C07 theorem is needed here (column
   names may repeat or be shaped like temporaries, 10000 columns: both runs then panic together).
   Only premise: the context functions are recorded tables with typed results and no built-in names (ctx_fn_ok).
   Where a recorded table lacks an entry BOTH runs panic. *)
Theorem C09_eval_congr ut cx f g t dst e :
  ctx_fn_ok cx = true ->
  abs f = Ok t -> abs g = Ok t -> ferr f = ferr g -> wf_frame f = true -> wf_frame g = true ->
  NoDup (ix f) -> NoDup (ix g) ->
  same_result (Eval.eval ut cx f dst e) (Eval.eval ut cx g dst e).
Proof. exact (fun H => eval_congr_full ut cx H f g t dst e). Qed.
Print Assumptions C09_eval_congr.

Example C09_eval_congr_example :
  let cx := [((TFloat, true, [43%N]),
              F2 TFloat [(CFloat 0x3FF0000000000000, CFloat 0x3FF0000000000000, CFloat 0x4000000000000000);
                         (CFloat 0x7FF8000000000001, CFloat 0x7FF8000000000001, CFloat 0x7FF8000000000001);
                         (CFloat 0, CFloat 0, CFloat 0)]%N)] in
  let e := Eval.XColCol [43%N] [65%N] [65%N] in
  ctx_fn_ok cx = true
  /\ (do r <- Eval.eval [] cx ex_f [90%N] e; do t <- abs r; Ok (map (fun row => skipn 3 row) (trows t)))
     = Ok [[CFloat 0x4000000000000000]; [CFloat 0x7FF8000000000001]; [CFloat 0]]%N
  /\ (do r <- Eval.eval [] cx ex_f [90%N] e; abs r) = (do r <- Eval.eval [] cx ex_h [90%N] e; abs r).
Proof. vm_compute. repeat split; reflexivity. Qed.

(* ---- the strongest true replacement of C09_congruence_full_statement, in one statement *)
Definition C09_congruence_statement2 : Prop := congruence_statement2.
Theorem C09_congruence2 : C09_congruence_statement2.
Proof. exact congruence2. Qed.
Print Assumptions C09_congruence2.
(* Still NOT theorems: congruence for Sort, Distinct, GroupBy/Aggregate (their table-level characterisations
   belong to C03/C04/C05), and congruence with respect to Equals itself instead of table identity (it fails for
   -0 / +0: a user function like 1/x tells them apart). *)

(* ================================================================== wave 3: String()
   Model/StringRender.v is the executable model of QFrame.String() with fixLengthString and the per-column
   StringAt(i, "null"), on the PHYSICAL frame (cells read at index[i]); tstring_lines is the statement on the
   logical table.  NO ENGINE RUNS THIS MODEL YET (check_string in Model/StringRender.v is the ready-made check);
   the table-level text was compared once by hand with the implementation on 8 derived frames (more than 50
   rows, cut cells, NaN, nulls, no rows, no columns): all agreed. *)
From QF Require Import Model.StringRender Proofs.StringRenderProofs.

(* The lines String() joins with "\n" are, for every frame without Err whose table can be read - whatever its
   physical layout and row index -:
     the header (every column name followed by "(" first letter of its type ")", right-aligned to the column
       width = max(length of that header, 5)), the dashes,
     THE FIRST min(n, 50) ROWS OF THE TABLE IN ROW ORDER, every cell rendered by StringAt(_, "null")
       (string_at: FormatInt / FormatFloat or "null" for NaN / FormatBool / the string or "null" for null)
       and then cut or right-aligned to its column width (fix_len), fields joined by one space,
     "... printout truncated ..." exactly when the table has more than 50 rows,
     "\nDims = <columns> x <rows>".
   For every float formatter ff (strconv.FormatFloat(x, 'f', -1, 64) is an oracle, as for ToCSV). *)
Theorem C09_string_rows ff f t :
  abs f = Ok t -> ferr f = false ->
  frame_string_lines ff f
  = Ok (theader t :: tdashes t :: map (print_row ff (twidths t)) (firstn 50 (trows t))
        ++ (if 50 <? length (trows t) then [str_truncated] else [])
        ++ [dims_line (length (tnames t)) (length (trows t))]).
Proof. exact (string_lines_spec ff f t). Qed.
Print Assumptions C09_string_rows.

Theorem C09_string ff f t : abs f = Ok t -> ferr f = false -> frame_string ff f = Ok (tstring ff t).
Proof. exact (string_spec ff f t). Qed.
Print Assumptions C09_string.

(* the i-th printed row (line 2 + i) is the i-th row of the table, for i < 50 *)
Theorem C09_string_row_nth ff t i row :
  i < 50 -> nth_error (trows t) i = Some row ->
  nth_error (tstring_lines ff t) (2 + i) = Some (print_row ff (twidths t) row).
Proof. exact (printed_row_nth ff t i row). Qed.
Print Assumptions C09_string_row_nth.

Theorem C09_string_lines_count ff t :
  length (tstring_lines ff t) = 2 + Nat.min 50 (length (trows t)) + (if 50 <? length (trows t) then 1 else 0) + 1.
Proof. exact (lines_count ff t). Qed.
Print Assumptions C09_string_lines_count.

(* the documented cell-width truncation: a field has exactly the column width (>= 5); a text that fits is printed
   completely, right-aligned; a longer one is cut to its first width-3 BYTES followed by "..." *)
Theorem C09_string_cell_width s pad n : 3 <= n -> length (fix_len s pad n) = n.
Proof. exact (fix_len_length s pad n). Qed.
Print Assumptions C09_string_cell_width.
Theorem C09_string_cell_fits s pad n : length s <= n -> fix_len s pad n = repeat pad (n - length s) ++ s.
Proof. exact (fix_len_fits s pad n). Qed.
Print Assumptions C09_string_cell_fits.
Theorem C09_string_cell_cut s pad n : n < length s -> fix_len s pad n = firstn (n - 3) s ++ str_dots.
Proof. exact (fix_len_cut s pad n). Qed.
Print Assumptions C09_string_cell_cut.
Theorem C09_string_col_width name t : 5 <= col_width name t /\ length (col_header name t) <= col_width name t.
Proof. exact (col_width_ge name t). Qed.
Print Assumptions C09_string_col_width.

(* String and ToCSV render a cell in the same way (StringAt); only the text for null / NaN differs *)
Theorem C09_string_at_csv ff c : string_at ff [] c = csv_cell ff c.
Proof. exact (string_at_csv ff c). Qed.
Print Assumptions C09_string_at_csv.
Theorem C09_string_at_null ff na c :
  string_at ff na c = match c with
                      | CFloat x => if CsvSpec.is_nan_bits x then na else csv_cell ff c
                      | CStr None | CEnum None => na
                      | _ => csv_cell ff c
                      end.
Proof. exact (string_at_na ff na c). Qed.
Print Assumptions C09_string_at_null.

(* on a well-formed frame without Err String() never panics; frames with the same table print the same text *)
Theorem C09_string_total ff f : wf_frame f = true -> ferr f = false -> exists s, frame_string ff f = Ok s.
Proof. exact (string_total ff f). Qed.
Print Assumptions C09_string_total.
Theorem C09_string_congr ff f g t :
  abs f = Ok t -> abs g = Ok t -> ferr f = false -> ferr g = false -> frame_string ff f = frame_string ff g.
Proof. exact (string_congr ff f g t). Qed.
Print Assumptions C09_string_congr.

(* ---- one Example per branch of the code (vm_compute) *)
Definition ex_ff : N -> bytes := ff_of [(0x3FF0000000000000, [49]); (0, [48])]%N.
(* (1) a derived frame (ex_f: physical order differs from row order): NaN and null print as "null", fitting
   cells are right-aligned, the header of a short name is padded to width 5:
       " A(f)  B(s)  C(e)" / "----- ----- -----" / "    1     a     x" / " null  null     y" / "    0        null" *)
Example C09_string_example_rows :
  frame_string_lines ex_ff ex_f
  = Ok [[32; 65; 40; 102; 41; 32; 32; 66; 40; 115; 41; 32; 32; 67; 40; 101; 41];
        [45; 45; 45; 45; 45; 32; 45; 45; 45; 45; 45; 32; 45; 45; 45; 45; 45];
        [32; 32; 32; 32; 49; 32; 32; 32; 32; 32; 97; 32; 32; 32; 32; 32; 120];
        [32; 110; 117; 108; 108; 32; 32; 110; 117; 108; 108; 32; 32; 32; 32; 32; 121];
        [32; 32; 32; 32; 48; 32; 32; 32; 32; 32; 32; 32; 32; 110; 117; 108; 108];
        [10; 68; 105; 109; 115; 32; 61; 32; 51; 32; 120; 32; 51]]%N
  /\ frame_string ex_ff ex_f = frame_string ex_ff ex_h.
Proof. split; vm_compute; reflexivity. Qed.
(* (2) cells longer than the column are cut to width-3 bytes + "...": the string "abcdefghijklm" in the column
   "longname(s)" of width 11 prints "abcdefgh...", the int -123456 in a column of width 5 prints "-1..." *)
Example C09_string_example_cut :
  frame_string_lines ex_ff
    (mkFrame [([108;111;110;103;110;97;109;101]%N, SCol [Some [97;98;99;100;101;102;103;104;105;106;107;108;109]%N; Some [120]%N]);
              ([73]%N, ICol [-123456; 7]%Z)] [1; 0] false)
  = Ok [[108; 111; 110; 103; 110; 97; 109; 101; 40; 115; 41; 32; 32; 73; 40; 105; 41];
        [45; 45; 45; 45; 45; 45; 45; 45; 45; 45; 45; 32; 45; 45; 45; 45; 45];
        [32; 32; 32; 32; 32; 32; 32; 32; 32; 32; 120; 32; 32; 32; 32; 32; 55];
        [97; 98; 99; 100; 101; 102; 103; 104; 46; 46; 46; 32; 45; 49; 46; 46; 46];
        [10; 68; 105; 109; 115; 32; 61; 32; 50; 32; 120; 32; 50]]%N.
Proof. vm_compute. reflexivity. Qed.
(* (3) 51 rows (a reversed sub-index of 60 physical rows): 50 printed rows in row order ("   53" first, "    4"
   last), then the truncation marker, then "\nDims = 1 x 51" *)
Example C09_string_example_truncated :
  (do l <- frame_string_lines ex_ff (mkFrame [([73]%N, ICol (map Z.of_nat (seq 0 60)))] (rev (seq 3 51)) false);
   Ok (length l, nth 2 l [], nth 51 l [], nth 52 l [], nth 53 l []))
  = Ok (54, [32; 32; 32; 53; 51]%N, [32; 32; 32; 32; 52]%N, str_truncated,
        [10; 68; 105; 109; 115; 32; 61; 32; 49; 32; 120; 32; 53; 49]%N).
Proof. vm_compute. reflexivity. Qed.
(* (4) no columns: "\n\n\nDims = 0 x 0";  (5) a frame with Err: the error text (not modelled) *)
Example C09_string_example_empty :
  frame_string ex_ff (mkFrame [] [] false) = Ok [10; 10; 10; 68; 105; 109; 115; 32; 61; 32; 48; 32; 120; 32; 48]%N
  /\ frame_string ex_ff (mkFrame [] [] true) = Fail.
Proof. split; vm_compute; reflexivity. Qed.
(* (6) fixLengthString below width 3 would panic in the implementation (negative slice bound); String() never
   gets there because every width is at least 5 *)
Example C09_string_example_narrow : fix_length [97; 98; 99]%N 32%N 2 = Panic /\ fix_length [97; 98; 99]%N 32%N 3 = Ok [97; 98; 99]%N.
Proof. split; vm_compute; reflexivity. Qed.
(* (7) the engine-side check: 0 for the text the model prints, 2 (property oracle) for any other text *)
Example C09_string_example_check :
  (do s <- frame_string ex_ff ex_f; Ok (check_string [(0x3FF0000000000000, [49]); (0, [48])]%N ex_f s)) = Ok 0%N
  /\ check_string [(0x3FF0000000000000, [49]); (0, [48])]%N ex_f [] = 2%N.
Proof. split; vm_compute; reflexivity. Qed.

(* ================================================================== wave 5: congruence for Sort, Distinct,
   GroupBy + Aggregate, GroupBy + QFrames (Proofs/CongruenceProofs2.v)

   Sort, Distinct and GroupBy are run on the frame-level models the engines execute (Model/SortFrame.v sort_frame,
   Model/Aggregate.v distinct / group_by / aggregate / qframes).  The sorter and the hash table never look inside
   a row id (they ask Less / equals / hash for the ids found in slots of the index), so on two frames with the
   same logical table they make the SAME decisions slot by slot: the results have exactly the same logical table,
   rows equal on all keys included - nothing is left "up to the order of ties / of groups". *)
From QF Require Import Model.Sort Model.SortFrame Model.Aggregate Proofs.CongruenceProofs2.
From QF Require Model.Grouper.

(* the sorter is parametric in the row ids: two id lists paired slot by slot by any relation R on which the two
   Less functions agree are sorted into lists paired slot by slot (or both runs fault) *)
Theorem C09_sorter_parametric (R : nat -> nat -> Prop) lt1 lt2 s1 s2 :
  (forall p q p' q', R p q -> R p' q' -> lt1 p p' = lt2 q q') -> Forall2 R s1 s2 ->
  osim (Forall2 R) (sort_ids lt1 s1) (sort_ids lt2 s2).
Proof. exact (fun H => sort_ids_sim R lt1 lt2 H s1 s2). Qed.
Print Assumptions C09_sorter_parametric.

(* so is the hash table of GroupBy / Distinct, for every equals / hash pair that agrees on paired ids *)
Theorem C09_grouper_parametric {A B} (R : A -> B -> Prop) eqb1 eqb2 hash1 hash2 ids1 ids2 :
  (forall a b a' b', R a b -> R a' b' -> eqb1 a a' = eqb2 b b') -> (forall a b, R a b -> hash1 a = hash2 b) ->
  Forall2 R ids1 ids2 ->
  osim (Forall2 (Forall2 R)) (Grouper.group_ids_gen eqb1 hash1 ids1) (Grouper.group_ids_gen eqb2 hash2 ids2)
  /\ osim (Forall2 R) (Grouper.distinct_ids_gen eqb1 hash1 ids1) (Grouper.distinct_ids_gen eqb2 hash2 ids2)
  /\ forall collect, Grouper.group_stats_gen eqb1 hash1 collect ids1 = Grouper.group_stats_gen eqb2 hash2 collect ids2.
Proof.
  intros H1 H2 H3. split; [exact (group_ids_gen_sim R eqb1 eqb2 hash1 hash2 H1 H2 ids1 ids2 H3)|].
  split; [exact (distinct_ids_gen_sim R eqb1 eqb2 hash1 hash2 H1 H2 ids1 ids2 H3)|].
  intro collect. exact (group_stats_gen_sim R eqb1 eqb2 hash1 hash2 H1 H2 collect ids1 ids2 H3).
Qed.
Print Assumptions C09_grouper_parametric.

(* ---- Sort.  Premise beyond "same table, well formed": sort_keys_okb - the enum columns NAMED BY AN ORDER have the
   same value list in both frames, without repeated values (Sort orders an enum column by the stored RANKS, which
   the logical table does not show).  No premise about the indexes (repeats allowed), none about the orders (an
   unknown column: both results carry the error), none about the other columns. *)
Theorem C09_sort_congr f g t orders :
  abs f = Ok t -> abs g = Ok t -> ferr f = ferr g -> wf_frame f = true -> wf_frame g = true ->
  sort_keys_okb f g orders = true ->
  same_result (sort_frame f orders) (sort_frame g orders).
Proof. exact (sort_congr_keys f g t orders). Qed.
Print Assumptions C09_sort_congr.

(* the same with the mechanism visible: the columns are kept and the two sorted indexes hold, slot by slot, rows
   that sat in the same slot of the two input indexes *)
Theorem C09_sort_congr_slots f g t orders :
  abs f = Ok t -> abs g = Ok t -> ferr f = ferr g -> wf_frame f = true -> wf_frame g = true ->
  sort_keys_okb f g orders = true ->
  sorted_alike (combine (ix f) (ix g)) f g (sort_frame f orders) (sort_frame g orders).
Proof. exact (sort_congr_keys_paired f g t orders). Qed.
Print Assumptions C09_sort_congr_slots.

(* the premises of Filter's congruence theorem (same value lists and strictness in ALL enum columns) imply it *)
Theorem C09_sort_keys_premise f g orders :
  enum_metas f = enum_metas g -> enum_nodup_b f = true -> map fst (cols f) = map fst (cols g) ->
  sort_keys_okb f g orders = true.
Proof. exact (metas_sort_keys f g orders). Qed.
Print Assumptions C09_sort_keys_premise.
(* likewise for the key premise of Distinct / GroupBy below, for every list of column names *)
Theorem C09_enum_keys_premise f g names :
  enum_metas f = enum_metas g -> enum_nodup_b f = true -> map fst (cols f) = map fst (cols g) ->
  enum_keys_okb f g names = true.
Proof. exact (metas_keys f g names). Qed.
Print Assumptions C09_enum_keys_premise.

(* two layouts of one table (three columns: int, enum, int; rows tied on the sort keys are told apart by the third
   column): derived index on one side, identity index and an unused physical row on the other *)
Definition ex_sf : frame :=
  mkFrame [([65%N], ICol [3; 1; 3; 1; 2]%Z); ([69%N], ECol [0; 1; 0; 1; 255]%N [[120%N]; [121%N]] false);
           ([66%N], ICol [12; 14; 11; 13; 10]%Z)] [4; 2; 0; 3; 1] false.
Definition ex_sg : frame :=
  mkFrame [([65%N], ICol [2; 3; 3; 1; 1; 7]%Z); ([69%N], ECol [255; 0; 0; 1; 1; 0]%N [[120%N]; [121%N]] true);
           ([66%N], ICol [10; 11; 12; 13; 14; 15]%Z)] [0; 1; 2; 3; 4] false.
Definition ex_rows (o : outcome frame) : outcome (list (list cell)) := do r <- o; do t <- abs r; Ok (trows t).
Example C09_sort_congr_example :
  abs ex_sf = abs ex_sg /\ wf_frame ex_sf = true /\ wf_frame ex_sg = true
  /\ sort_keys_okb ex_sf ex_sg [([69%N], true, true); ([65%N], false, false)] = true
  /\ ex_rows (sort_frame ex_sf [([69%N], true, true)])
     = Ok [[CInt 2; CEnum None; CInt 10]; [CInt 1; CEnum (Some [121%N]); CInt 13]; [CInt 1; CEnum (Some [121%N]); CInt 14];
           [CInt 3; CEnum (Some [120%N]); CInt 11]; [CInt 3; CEnum (Some [120%N]); CInt 12]]%Z
  /\ ex_rows (sort_frame ex_sg [([69%N], true, true)]) = ex_rows (sort_frame ex_sf [([69%N], true, true)])
  /\ option_map ix (match sort_frame ex_sf [([69%N], true, true)] with Ok r => Some r | _ => None end) = Some [4; 3; 1; 2; 0]
  /\ option_map ix (match sort_frame ex_sg [([69%N], true, true)] with Ok r => Some r | _ => None end) = Some [0; 3; 4; 1; 2].
Proof. vm_compute. repeat split; reflexivity. Qed.

(* the premise is needed, in both halves.  (1) the same table with the enum values declared in opposite orders
   (C09_cf, C09_cg above): Sort returns different tables *)
Example C09_sort_needs_same_values :
  abs C09_cf = abs C09_cg /\ wf_frame C09_cf = true /\ wf_frame C09_cg = true
  /\ sort_keys_okb C09_cf C09_cg [([69%N], false, false)] = false
  /\ ex_rows (sort_frame C09_cf [([69%N], false, false)]) = Ok [[CEnum (Some [97%N])]; [CEnum (Some [98%N])]]
  /\ ex_rows (sort_frame C09_cg [([69%N], false, false)]) = Ok [[CEnum (Some [98%N])]; [CEnum (Some [97%N])]].
Proof. vm_compute. repeat split; reflexivity. Qed.
(* (2) the SAME value list, but with a repeated value (the enum factory refuses such a list; Model/Ops.v
   enum_new_const: nodup_bytes): one string has two ranks, the table does not say which one a row holds *)
Definition C09_df : frame := mkFrame [([69%N], ECol [0; 1]%N [[97%N]; [98%N]; [97%N]] false)] [0; 1] false.
Definition C09_dg : frame := mkFrame [([69%N], ECol [2; 1]%N [[97%N]; [98%N]; [97%N]] false)] [0; 1] false.
Example C09_sort_needs_distinct_values :
  abs C09_df = abs C09_dg /\ wf_frame C09_df = true /\ wf_frame C09_dg = true /\ enum_metas C09_df = enum_metas C09_dg
  /\ sort_keys_okb C09_df C09_dg [([69%N], false, false)] = false
  /\ ex_rows (sort_frame C09_df [([69%N], false, false)]) = Ok [[CEnum (Some [97%N])]; [CEnum (Some [98%N])]]
  /\ ex_rows (sort_frame C09_dg [([69%N], false, false)]) = Ok [[CEnum (Some [98%N])]; [CEnum (Some [97%N])]].
Proof. vm_compute. repeat split; reflexivity. Qed.

(* ---- Distinct, GroupBy + Aggregate, GroupBy + QFrames, for every memhash.  Premises beyond "same table, well
   formed": enum_keys_okb - the enum columns among the KEY columns (Distinct without columns: all columns,
   distinct_keys) have the same value list in both frames, without repeated values (equals and hash read the RANK
   byte of an enum cell; aggregated enum columns are seen as strings and need nothing) -, and rnd_agree: under Null(false) a null key cell is hashed to rand.Uint64(); the model indexes the draws by the row
   being hashed (rnd row col), and "the same random stream" for two layouts means the same draws for the rows in
   the same slot of the two indexes.  Under Null(true) no draw is made and the premise is void
   (C09_rnd_agree_null_true).  same_outcome is same_result plus "both return the error value". *)
Theorem C09_distinct_congr f g t mh nulleq rnd1 rnd2 columns :
  abs f = Ok t -> abs g = Ok t -> ferr f = ferr g -> wf_frame f = true -> wf_frame g = true ->
  enum_keys_okb f g (distinct_keys f columns) = true ->
  rnd_agree nulleq (combine (ix f) (ix g)) rnd1 rnd2 ->
  same_outcome (distinct mh rnd1 nulleq f columns) (distinct mh rnd2 nulleq g columns).
Proof. exact (fun a b c d e => distinct_congr f g t a b c d e mh nulleq rnd1 rnd2 columns). Qed.
Print Assumptions C09_distinct_congr.

(* the model of Distinct never returns the error value, so the statement holds in the form of the other
   operations as well (same_result: both panic, or same Err and same logical table) *)
Theorem C09_distinct_not_fail mh rnd nulleq f columns : distinct mh rnd nulleq f columns <> Fail.
Proof. exact (distinct_not_fail mh rnd nulleq f columns). Qed.
Print Assumptions C09_distinct_not_fail.
Theorem C09_distinct_congr_result f g t mh nulleq rnd1 rnd2 columns :
  abs f = Ok t -> abs g = Ok t -> ferr f = ferr g -> wf_frame f = true -> wf_frame g = true ->
  enum_keys_okb f g (distinct_keys f columns) = true ->
  rnd_agree nulleq (combine (ix f) (ix g)) rnd1 rnd2 ->
  same_result (distinct mh rnd1 nulleq f columns) (distinct mh rnd2 nulleq g columns).
Proof. exact (distinct_congr_result f g t mh nulleq rnd1 rnd2 columns). Qed.
Print Assumptions C09_distinct_congr_result.

Theorem C09_rnd_agree_null_true L rnd1 rnd2 : rnd_agree true L rnd1 rnd2.
Proof. exact (or_introl eq_refl). Qed.
Print Assumptions C09_rnd_agree_null_true.

(* the two Groupers: same Err, same grouping columns, groups paired slot by slot with members in the same order *)
Theorem C09_group_by_congr f g t mh nulleq rnd1 rnd2 columns :
  abs f = Ok t -> abs g = Ok t -> ferr f = ferr g -> wf_frame f = true -> wf_frame g = true ->
  enum_keys_okb f g columns = true ->
  rnd_agree nulleq (combine (ix f) (ix g)) rnd1 rnd2 ->
  osim (GRel (combine (ix f) (ix g)))
       (group_by mh rnd1 nulleq f columns) (group_by mh rnd2 nulleq g columns).
Proof. exact (fun a b c d e => group_by_congr f g t a b c d e mh nulleq rnd1 rnd2 columns). Qed.
Print Assumptions C09_group_by_congr.

(* Aggregate on two such Groupers returns THE SAME frame (same columns, data, identity index, Err) - for every
   aggregation list, every function table: no premise at all about the aggregations *)
Theorem C09_aggregate_congr L ft a b aggs : GRel L a b -> aggregate ft a aggs = aggregate ft b aggs.
Proof. exact (aggregate_sim L ft a b aggs). Qed.
Print Assumptions C09_aggregate_congr.

Theorem C09_groupby_aggregate_congr f g t mh nulleq rnd1 rnd2 ft columns aggs :
  abs f = Ok t -> abs g = Ok t -> ferr f = ferr g -> wf_frame f = true -> wf_frame g = true ->
  enum_keys_okb f g columns = true ->
  rnd_agree nulleq (combine (ix f) (ix g)) rnd1 rnd2 ->
  (do gr <- group_by mh rnd1 nulleq f columns; aggregate ft gr aggs)
  = (do gr <- group_by mh rnd2 nulleq g columns; aggregate ft gr aggs).
Proof. exact (fun a b c d e => groupby_aggregate_congr f g t a b c d e mh nulleq rnd1 rnd2 ft columns aggs). Qed.
Print Assumptions C09_groupby_aggregate_congr.

Theorem C09_groupby_qframes_congr f g t mh nulleq rnd1 rnd2 columns :
  abs f = Ok t -> abs g = Ok t -> ferr f = ferr g -> wf_frame f = true -> wf_frame g = true ->
  enum_keys_okb f g columns = true ->
  rnd_agree nulleq (combine (ix f) (ix g)) rnd1 rnd2 ->
  osim (Forall2 (fun f' g' => ferr f' = ferr g' /\ abs f' = abs g'))
       (do gr <- group_by mh rnd1 nulleq f columns; qframes gr)
       (do gr <- group_by mh rnd2 nulleq g columns; qframes gr).
Proof. exact (fun a b c d e => groupby_qframes_congr f g t a b c d e mh nulleq rnd1 rnd2 columns). Qed.
Print Assumptions C09_groupby_qframes_congr.

(* a concrete memhash and random source; the second source is the first one re-addressed through the two
   indexes, so that the rows in the same slot see the same draws *)
Definition ex_mh (b : bytes) (seed : N) : N := fold_left (fun h x => (h * 31 + x + 7) mod 2 ^ 64)%N b seed.
Definition ex_rnd1 (row col : nat) : N := N.of_nat (1000 + 17 * row + col).
Definition ex_rnd2 (row col : nat) : N := ex_rnd1 (nth row [4; 2; 0; 3; 1] 0) col.
Definition ex_aggs : list aggregation := [mkAgg (GName (bs 3 0x73756d)) [66%N] [83%N]; mkAgg (GName name_count) [66%N] [67%N]].
Example C09_rnd_agree_example : rnd_agree false (combine (ix ex_sf) (ix ex_sg)) ex_rnd1 ex_rnd2.
Proof.
  right. intros p q H col. cbn in H.
  repeat (destruct H as [H|H]; [inversion H; subst; reflexivity|]). destruct H.
Qed.
(* ex_sg with the strictness of ex_sf: Aggregate returns the same frame for both, the Subset of an enum key column
   does not keep the strict flag (C09_groupby_congr_example_strict) *)
Definition ex_sh : frame :=
  mkFrame [([65%N], ICol [2; 3; 3; 1; 1; 7]%Z); ([69%N], ECol [255; 0; 0; 1; 1; 0]%N [[120%N]; [121%N]] false);
           ([66%N], ICol [10; 11; 12; 13; 14; 15]%Z)] [0; 1; 2; 3; 4] false.
Example C09_groupby_congr_example :
  abs ex_sf = abs ex_sh /\ wf_frame ex_sf = true /\ wf_frame ex_sh = true
  /\ enum_keys_okb ex_sf ex_sh [[65%N]; [69%N]] = true /\ enum_keys_okb ex_sf ex_sh (distinct_keys ex_sf []) = true
  /\ ix ex_sh = ix ex_sg
  /\ (do gr <- group_by ex_mh ex_rnd1 false ex_sf [[65%N]; [69%N]]; Ok (gindices gr)) = Ok [[4]; [3; 1]; [2; 0]]
  /\ (do gr <- group_by ex_mh ex_rnd2 false ex_sh [[65%N]; [69%N]]; Ok (gindices gr)) = Ok [[0]; [3; 4]; [1; 2]]
  /\ (do gr <- group_by ex_mh ex_rnd1 false ex_sf [[65%N]; [69%N]]; aggregate [] gr ex_aggs)
     = Ok (mkFrame [([65%N], ICol [2; 1; 3]%Z); ([69%N], ECol [255; 1; 0]%N [[120%N]; [121%N]] false);
                    ([83%N], ICol [10; 27; 23]%Z); ([67%N], ICol [1; 2; 2]%Z)] [0; 1; 2] false)
  /\ ex_rows (distinct ex_mh ex_rnd1 false ex_sf [[69%N]])
     = Ok [[CInt 1; CEnum (Some [121%N]); CInt 13]; [CInt 2; CEnum None; CInt 10]; [CInt 3; CEnum (Some [120%N]); CInt 11]]%Z
  /\ ex_rows (distinct ex_mh ex_rnd2 false ex_sh [[69%N]]) = ex_rows (distinct ex_mh ex_rnd1 false ex_sf [[69%N]]).
Proof. vm_compute. repeat split; reflexivity. Qed.

Example C09_groupby_congr_example_strict :
  enum_metas ex_sf <> enum_metas ex_sg /\ enum_keys_okb ex_sf ex_sg [[65%N]; [69%N]] = true
  /\ (do gr <- group_by ex_mh ex_rnd2 false ex_sg [[65%N]; [69%N]]; aggregate [] gr ex_aggs)
     = (do gr <- group_by ex_mh ex_rnd1 false ex_sf [[65%N]; [69%N]]; aggregate [] gr ex_aggs).
Proof. split; [vm_compute; discriminate|]. vm_compute. split; reflexivity. Qed.

(* the premises are needed.  (1) enum value lists in opposite orders: other hash values, other order of the rows
   that Distinct keeps.  (2) a value list with a repeated value: the two ranks of one string are different keys.
   (3) Null(false) with other random draws for the rows in the same slot: the null keys land in other slots. *)
Example C09_distinct_needs_same_values :
  abs C09_cf = abs C09_cg /\ enum_keys_okb C09_cf C09_cg [[69%N]] = false
  /\ ex_rows (distinct ex_mh ex_rnd1 true C09_cf [[69%N]]) <> ex_rows (distinct ex_mh ex_rnd1 true C09_cg [[69%N]]).
Proof. split; [reflexivity|]. split; [reflexivity|]. vm_compute. discriminate. Qed.
Example C09_distinct_needs_distinct_values :
  let f := mkFrame [([69%N], ECol [0; 2]%N [[97%N]; [98%N]; [97%N]] false)] [0; 1] false in
  let g := mkFrame [([69%N], ECol [0; 0]%N [[97%N]; [98%N]; [97%N]] false)] [0; 1] false in
  abs f = abs g /\ enum_metas f = enum_metas g /\ enum_nodup_b f = false /\ enum_keys_okb f g [[69%N]] = false
  /\ ex_rows (distinct ex_mh ex_rnd1 true f [[69%N]]) = Ok [[CEnum (Some [97%N])]; [CEnum (Some [97%N])]]
  /\ ex_rows (distinct ex_mh ex_rnd1 true g [[69%N]]) = Ok [[CEnum (Some [97%N])]].
Proof. vm_compute. repeat split; reflexivity. Qed.
Example C09_distinct_needs_same_draws :
  let f := mkFrame [([83%N], SCol [None; None]); ([66%N], ICol [10; 11]%Z)] [0; 1] false in
  ex_rows (distinct ex_mh (fun r _ => N.of_nat r) false f [[83%N]]) = Ok [[CStr None; CInt 10]; [CStr None; CInt 11]]%Z
  /\ ex_rows (distinct ex_mh (fun r _ => N.of_nat (1 - r)) false f [[83%N]]) = Ok [[CStr None; CInt 11]; [CStr None; CInt 10]]%Z.
Proof. vm_compute. repeat split; reflexivity. Qed.

(* ---- the summary statement: C09_congruence_statement2 extended by the four operations *)
Definition C09_congruence_statement3 : Prop := congruence_statement3.
Theorem C09_congruence3 : C09_congruence_statement3.
Proof. exact congruence3. Qed.
Print Assumptions C09_congruence3.
(* Still NOT theorems: congruence with respect to Equals itself instead of table identity (false for -0 / +0, see
   above); that the rebuilt twin of C09_rebuild satisfies the enum key premises (its value tables may differ from
   f's when f's tables list values no row uses - the premise is decidable on the two frames at hand). *)
