(* Base/CaseLib.v — how a shard of correspondence cases is evaluated.
   A case check returns a code: 0 = model, oracle and implementation agree;
   1 = the model's output differs from what the implementation returned (broken correspondence);
   2 = the property oracle (the specification-level function or verified checker) rejects what the
       implementation returned (a concrete failing input);
   3 = the model itself faulted (panic / out of fuel) where the implementation did not. *)
From QF Require Import Base.Prelude.

Definition run_cases {A} (check : A -> N) (cases : list (N * A)) : list (N * N) :=
  fold_right (fun c acc =>
                let r := check (snd c) in
                if N.eqb r 0 then acc else (fst c, r) :: acc) [] cases.
