(* Base/KernelSyntax.v — the deep embedding that tools/qf2coq emits for the filter loop kernels of
   internal/*column (Gen/GenKernels.v).  Only syntax lives here; the meaning (Model/Kernel.v) and the
   obligations (Proofs/KernelProofs.v) are written against it. *)
From QF Require Import Base.Prelude.

Inductive kexpr : Type :=
| KCell (n : nat)            (* column_n[index[i]] : 0 = the filtered column, 1 = the argument column *)
| KConst                     (* the scalar comparatee *)
| KLit (z : Z)
| KTrue | KFalse
| KLt (a b : kexpr) | KLe (a b : kexpr) | KGt (a b : kexpr) | KGe (a b : kexpr)
| KEq (a b : kexpr) | KNe (a b : kexpr)
| KAnd (a b : kexpr) | KOr (a b : kexpr) | KNot (a : kexpr)
| KBitAnd (a b : kexpr)
| KIsNaN (a : kexpr)         (* math.IsNaN *)
| KIsNull (a : kexpr)        (* enumVal.isNull / second result of stringAt *)
| KCompVal (a : kexpr)       (* enumVal.compVal *)
| KInSet (a : kexpr)         (* set.Contains *)
| KMatches (a : kexpr)       (* matcher.Matches *)
| KBitsetIsSet (a : kexpr)   (* bset.isSet *)
| KCallFn (args : list kexpr)(* the user supplied predicate *)
| KBad.                      (* emitted next to a translator problem; has no meaning *)

Inductive kpre : Type :=
| PNone
| PMatcher                   (* matcher, err := NewMatcher(comparatee, caseSensitive); if err != nil { return err } *)
| PColumnArg.                (* otherC, ok := comparatee.(Column); if !ok { return err } *)

Inductive kernel : Type :=
| KNoOp                                        (* empty body: the mask is left as it is *)
| KFill (b : bool)                             (* for i := range bIndex { bIndex[i] = b } *)
| KGuarded (p : kpre) (e : kexpr)              (* if !x { bIndex[i] = e } *)
| KGuardedIf (p : kpre) (c e : kexpr)          (* if !x { if c { bIndex[i] = e } } *)
| KDelegate (fn : bytes) (flag : bool).        (* return fn(index, s, comparatee, bIndex, flag) *)
