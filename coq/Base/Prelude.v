(* Base/Prelude.v — shared vocabulary of the qframe development.
   Stdlib only.  Data values are N/Z; nat is used only for positions, lengths and fuel. *)
From Coq Require Export List NArith ZArith Bool Lia Permutation.
From Coq Require Export ZifyBool ZifyNat ZifyN.
Export ListNotations.

Definition byte := N.
Definition bytes := list N.

(* [bs len v]: the [len] bytes of the big-endian number [v].  The harness prints byte strings
   as (bs 5 0x68656c6c6f) so that a string costs one numeral, not a list literal. *)
Fixpoint bs_aux (n : nat) (v : N) (acc : bytes) : bytes :=
  match n with
  | O => acc
  | S n' => bs_aux n' (N.shiftr v 8) (N.land v 255 :: acc)
  end.
Definition bs (len : N) (v : N) : bytes := bs_aux (N.to_nat len) v [].

(* Outcome of a model computation: a value, an error reported through Err / an error return,
   or a Go run-time panic (index out of range, make with negative length, explicit panic ...). *)
Inductive outcome (A : Type) : Type :=
| Ok (a : A)
| Fail
| Panic.
Arguments Ok {A} a.
Arguments Fail {A}.
Arguments Panic {A}.

Definition obind {A B} (x : outcome A) (f : A -> outcome B) : outcome B :=
  match x with Ok a => f a | Fail => Fail | Panic => Panic end.
Notation "'do' x <- e ; k" := (obind e (fun x => k))
  (at level 200, x pattern, e at level 100, k at level 200, right associativity).

Definition of_option {A} (x : option A) : outcome A :=
  match x with Some a => Ok a | None => Panic end.

(* Go's s[i] : panics outside the range *)
Definition idx {A} (l : list A) (i : nat) : outcome A := of_option (nth_error l i).

Fixpoint omap {A B} (f : A -> outcome B) (l : list A) : outcome (list B) :=
  match l with
  | [] => Ok []
  | x :: xs => do y <- f x; do ys <- omap f xs; Ok (y :: ys)
  end.

Fixpoint set_nth {A} (l : list A) (i : nat) (v : A) : list A :=
  match l, i with
  | [], _ => []
  | _ :: xs, O => v :: xs
  | x :: xs, S i' => x :: set_nth xs i' v
  end.

Lemma set_nth_length {A} (l : list A) i v : length (set_nth l i v) = length l.
Proof. revert i; induction l as [|x xs IH]; intros [|i]; simpl; auto. Qed.

Lemma nth_error_set_nth_eq {A} (l : list A) i v :
  i < length l -> nth_error (set_nth l i v) i = Some v.
Proof.
  revert i; induction l as [|x xs IH]; intros [|i] H; simpl in *; try lia; auto.
  apply IH; lia.
Qed.

Lemma nth_error_set_nth_neq {A} (l : list A) i j v :
  i <> j -> nth_error (set_nth l i v) j = nth_error l j.
Proof.
  revert i j; induction l as [|x xs IH]; intros [|i] [|j] H; simpl; auto; try congruence.
Qed.

(* byte strings *)
Fixpoint bytes_eqb (a b : bytes) : bool :=
  match a, b with
  | [], [] => true
  | x :: a', y :: b' => N.eqb x y && bytes_eqb a' b'
  | _, _ => false
  end.

Lemma bytes_eqb_spec a b : bytes_eqb a b = true <-> a = b.
Proof.
  revert b; induction a as [|x a IH]; intros [|y b]; simpl; split; intro H;
    try discriminate; auto.
  - apply andb_true_iff in H as [H1 H2]. apply N.eqb_eq in H1. apply IH in H2. congruence.
  - inversion H; subst. rewrite N.eqb_refl. simpl. apply IH. reflexivity.
Qed.

Lemma bytes_eqb_refl a : bytes_eqb a a = true.
Proof. apply bytes_eqb_spec; reflexivity. Qed.

(* bytes.Compare / Go string comparison: lexicographic on unsigned bytes *)
Fixpoint bytes_cmp (a b : bytes) : comparison :=
  match a, b with
  | [], [] => Eq
  | [], _ :: _ => Lt
  | _ :: _, [] => Gt
  | x :: a', y :: b' =>
      match N.compare x y with
      | Eq => bytes_cmp a' b'
      | c => c
      end
  end.

Definition opt_bytes_eqb (a b : option bytes) : bool :=
  match a, b with
  | None, None => true
  | Some x, Some y => bytes_eqb x y
  | _, _ => false
  end.

Fixpoint list_eqb {A} (eqb : A -> A -> bool) (a b : list A) : bool :=
  match a, b with
  | [], [] => true
  | x :: a', y :: b' => eqb x y && list_eqb eqb a' b'
  | _, _ => false
  end.

Lemma list_eqb_spec {A} (eqb : A -> A -> bool) :
  (forall x y, eqb x y = true <-> x = y) ->
  forall a b, list_eqb eqb a b = true <-> a = b.
Proof.
  intros Heq a; induction a as [|x a IH]; intros [|y b]; simpl; split; intro H;
    try discriminate; auto.
  - apply andb_true_iff in H as [H1 H2]. apply Heq in H1. apply IH in H2. congruence.
  - inversion H; subst. apply andb_true_iff; split; [apply Heq | apply IH]; reflexivity.
Qed.

Definition option_eqb {A} (eqb : A -> A -> bool) (a b : option A) : bool :=
  match a, b with
  | None, None => true
  | Some x, Some y => eqb x y
  | _, _ => false
  end.

(* 64-bit wrap-around *)
Definition two64 : Z := 18446744073709551616%Z.
Definition two63 : Z := 9223372036854775808%Z.
Definition wrap64 (z : Z) : Z := ((z + two63) mod two64 - two63)%Z.  (* int64 / Go int *)
Definition wrapu64 (z : Z) : Z := (z mod two64)%Z.
