(* Corr/SortCorr.v — correspondence cases for Model/Sort.v (engine "sort").

   The harness sends RAW cell values (ints as Z, floats as IEEE bit patterns, strings as option
   bytes, enums as option rank in the declared order, bools); the orders are rebuilt here.
   Two different comparison functions are built per case:
     * [model_lt] — Sorter.Less as modelled: [less_keys] over the per-type Compare models with the
       [mk_cmpcfg] tables.  It drives the exact replay [sort_ids] (code 1 / 3).
     * [spec_lt]  — the order as worded by property C03 ([key_lt_spec] / [lex_lt_spec]: natural order,
       null smallest / largest with NullLast, Reverse inverts everything, lexicographic over keys).
       It drives the verified checker [sorted_perm_b] on the implementation's output (code 2).
   Proofs/SortProofs.v shows that both functions are equal (less_keys_spec ...). *)
From Coq Require Import Uint63.
From QF Require Import Base.Prelude Base.CaseLib Model.Sort.
Local Open Scope N_scope.

Inductive keydata :=
| KInt (v : list Z)
| KFloat (bits : list N)
| KBool (v : list bool)
| KStr (v : list (option bytes))
| KEnum (v : list (option N)).

(* one sort key: column data, Reverse, NullLast *)
Definition keyspec := (keydata * (bool * bool))%type.

Inductive sort_case :=
(* real Comparables (through the hook or through QFrame.Sort); exact = also replay the model *)
| SKeys (exact : bool) (keys : list keyspec) (input output : list int)
(* a FuncKey answering LessThan iff rank a < rank b, else Equal (McIlroy adversary: final ranks) *)
| SRank (exact : bool) (ranks : list int) (input output : list int)
(* a FuncKey answering LessThan iff m[a][b] (arbitrary, possibly inconsistent): the property's
   ordering clause does not apply; permutation and exact replay only *)
| SMatrix (m : list (list bool)) (input output : list int).

(* ---- IEEE 754 binary64 on bit patterns *)
Definition f_isnan (b : N) : bool :=
  (N.land (N.shiftr b 52) 0x7ff =? 0x7ff) && negb (N.land b 0xfffffffffffff =? 0).

(* sign-magnitude reading: monotone on all non-NaN values, -0 and +0 both map to 0 *)
Definition f_ord (b : N) : Z :=
  let mag := Z.of_N (N.land b 0x7fffffffffffffff) in
  if N.testbit b 63 then (- mag)%Z else mag.

(* Go's x < y on float64 *)
Definition f_lt (x y : N) : bool :=
  negb (f_isnan x) && negb (f_isnan y) && (f_ord x <? f_ord y)%Z.

Definition nthd {A} (l : list A) (d : A) (i : nat) : A := nth i l d.

(* per key: (isnull, value-less-than) on row ids *)
Definition key_isnull (k : keydata) : nat -> bool :=
  match k with
  | KInt _ => fun _ => false
  | KFloat v => fun i => f_isnan (nthd v 0 i)
  | KBool _ => fun _ => false
  | KStr v => fun i => match nthd v None i with None => true | Some _ => false end
  | KEnum v => fun i => match nthd v None i with None => true | Some _ => false end
  end.

Definition key_vlt (k : keydata) : nat -> nat -> bool :=
  match k with
  | KInt v => fun i j => (nthd v 0%Z i <? nthd v 0%Z j)%Z
  | KFloat v => fun i j => f_lt (nthd v 0 i) (nthd v 0 j)
  | KBool v => fun i j => negb (nthd v false i) && nthd v false j
  | KStr v => fun i j =>
      match nthd v None i, nthd v None j with
      | Some x, Some y => match bytes_cmp x y with Lt => true | _ => false end
      | _, _ => false
      end
  | KEnum v => fun i j =>
      match nthd v None i, nthd v None j with
      | Some x, Some y => x <? y
      | _, _ => false
      end
  end.

(* the Compare method of the key's column type with the constructor's table (equalNull = false,
   as QFrame.Sort passes) *)
Definition key_compare (ks : keyspec) : nat -> nat -> cmpres :=
  let '(k, (rev, nl)) := ks in
  let cfg := mk_cmpcfg rev false nl in
  match k with
  | KInt _ => compare_rows_int cfg (key_vlt k)
  | KFloat _ => compare_rows_float cfg (key_isnull k) (key_vlt k)
  | KBool v => compare_rows_bool cfg (nthd v false)
  | KStr _ | KEnum _ => compare_rows cfg (key_isnull k) (key_vlt k)
  end.

Definition model_lt (keys : list keyspec) : nat -> nat -> bool :=
  less_keys (map key_compare keys).

Definition key_spec (ks : keyspec) : nat -> nat -> bool :=
  let '(k, (rev, nl)) := ks in key_lt_spec rev nl (key_isnull k) (key_vlt k).

Definition spec_lt (keys : list keyspec) : nat -> nat -> bool :=
  lex_lt_spec (map key_spec keys).

Definition rank_lt (ranks : list N) (a b : nat) : bool := nthd ranks 0 a <? nthd ranks 0 b.

Definition matrix_lt (m : list (list bool)) (a b : nat) : bool := nthd (nthd m [] a) false b.

Definition replay (exact : bool) (lt : nat -> nat -> bool) (input output : list nat) : N :=
  if exact then
    match sort_ids lt input with
    | Ok o => if list_eqb Nat.eqb o output then 0 else 1
    | _ => 3
    end
  else 0.

(* row ids and ranks travel as primitive 63-bit integers: one node per id keeps the shard files
   cheap to type-check (a unary numeral per id would make them huge, and even binary N numerals
   cost three times as much).  They are only decoded here; no theorem depends on them. *)
Definition ids (l : list int) : list nat := map (fun i => Z.to_nat (Uint63.to_Z i)) l.

Definition check_sort (c : sort_case) : N :=
  match c with
  | SKeys exact keys input output =>
      let input := ids input in let output := ids output in
      if negb (sorted_perm_b (spec_lt keys) input output) then 2
      else replay exact (model_lt keys) input output
  | SRank exact ranks input output =>
      let input := ids input in let output := ids output in
      let ranks := map (fun i => Z.to_N (Uint63.to_Z i)) ranks in
      if negb (sorted_perm_b (rank_lt ranks) input output) then 2
      else replay exact (rank_lt ranks) input output
  | SMatrix m input output =>
      let input := ids input in let output := ids output in
      if negb (perm_b output input) then 2
      else replay true (matrix_lt m) input output
  end.
