(* Corr/SortCorr.v — correspondence cases for Model/Sort.v (engine "sort").

   The harness sends RAW cell values (ints as Z, floats as IEEE bit patterns, strings as option
   bytes, enums as option rank in the declared order, bools); the orders are rebuilt here.
   Two different comparison functions are built per case:
     * [model_lt] — Sorter.Less as modelled: [less_keys] over the per-type Compare models with the
       [mk_cmpcfg] tables.  It drives the exact replay [sort_ids] (code 1 / 3).
     * [spec_lt]  — the order as worded by property C03 ([key_lt_spec] / [lex_lt_spec]: natural order,
       null smallest / largest with NullLast, Reverse inverts everything, lexicographic over keys).
       It drives the verified checker [sorted_perm_b] on the implementation's output (code 2).
   Proofs/SortProofs.v shows that both functions are equal (less_keys_spec ...).

   Family SFrame: QFrame.Sort itself on a physical frame dump (Model/SortFrame.v: sort_frame), compared
   exactly with the dumped result (code 1 / 3) and checked by [sort_frame_oracle] (code 2).
   Model.Frame has its own f_isnan / f_lt on bit patterns; inside this file (and for every file that
   imports this one last) the short names mean the definitions below; Proofs/SortFrameProofs.v shows
   that they are the same functions. *)
From Coq Require Import Uint63.
From QF Require Import Base.Prelude Base.CaseLib Model.Frame Model.Sort Model.SortFrame.
Local Open Scope N_scope.

Inductive keydata :=
| KInt (v : list Z)
| KFloat (bits : list N)
| KBool (v : list bool)
| KStr (v : list (option bytes))
| KEnum (v : list (option N)).

(* one sort key: column data, Reverse, NullLast *)
Definition keyspec := (keydata * (bool * bool))%type.

(* a frame dump with the index as primitive integers (decoded by [dump_frame] below) *)
Definition fdump := (list (bytes * coldata) * list int * bool)%type.

Inductive sort_case :=
(* real Comparables (through the hook or through QFrame.Sort); exact = also replay the model *)
| SKeys (exact : bool) (keys : list keyspec) (input output : list int)
(* a FuncKey answering LessThan iff rank a < rank b, else Equal (McIlroy adversary: final ranks) *)
| SRank (exact : bool) (ranks : list int) (input output : list int)
(* a FuncKey answering LessThan iff m[a][b] (arbitrary, possibly inconsistent): the property's
   ordering clause does not apply; permutation and exact replay only *)
| SMatrix (m : list (list bool)) (input output : list int)
(* QFrame.Sort(orders...) on a dumped frame with the dumped result; exact = also replay sort_frame *)
| SFrame (exact : bool) (input : fdump) (orders : list order) (output : fdump).

(* ---- IEEE 754 binary64 on bit patterns *)
Definition f_isnan (b : N) : bool :=
  (N.land (N.shiftr b 52) 0x7ff =? 0x7ff) && negb (N.land b 0xfffffffffffff =? 0).

(* sign-magnitude reading: monotone on all non-NaN values, -0 and +0 both map to 0 *)
Definition f_ord (b : N) : Z :=
  let mag := Z.of_N (N.land b 0x7fffffffffffffff) in
  if N.testbit b 63 then (- mag)%Z else mag.

(* Go's x < y on float64 *)
Definition f_lt (x y : N) : bool :=
  negb (f_isnan x) && negb (f_isnan y) && (f_ord x <? f_ord y)%Z.

Definition nthd {A} (l : list A) (d : A) (i : nat) : A := nth i l d.

(* per key: (isnull, value-less-than) on row ids *)
Definition key_isnull (k : keydata) : nat -> bool :=
  match k with
  | KInt _ => fun _ => false
  | KFloat v => fun i => f_isnan (nthd v 0 i)
  | KBool _ => fun _ => false
  | KStr v => fun i => match nthd v None i with None => true | Some _ => false end
  | KEnum v => fun i => match nthd v None i with None => true | Some _ => false end
  end.

Definition key_vlt (k : keydata) : nat -> nat -> bool :=
  match k with
  | KInt v => fun i j => (nthd v 0%Z i <? nthd v 0%Z j)%Z
  | KFloat v => fun i j => f_lt (nthd v 0 i) (nthd v 0 j)
  | KBool v => fun i j => negb (nthd v false i) && nthd v false j
  | KStr v => fun i j =>
      match nthd v None i, nthd v None j with
      | Some x, Some y => match bytes_cmp x y with Lt => true | _ => false end
      | _, _ => false
      end
  | KEnum v => fun i j =>
      match nthd v None i, nthd v None j with
      | Some x, Some y => x <? y
      | _, _ => false
      end
  end.

(* the Compare method of the key's column type with the constructor's table (equalNull = false,
   as QFrame.Sort passes) *)
Definition key_compare (ks : keyspec) : nat -> nat -> cmpres :=
  let '(k, (rev, nl)) := ks in
  let cfg := mk_cmpcfg rev false nl in
  match k with
  | KInt _ => compare_rows_int cfg (key_vlt k)
  | KFloat _ => compare_rows_float cfg (key_isnull k) (key_vlt k)
  | KBool v => compare_rows_bool cfg (nthd v false)
  | KStr _ | KEnum _ => compare_rows cfg (key_isnull k) (key_vlt k)
  end.

Definition model_lt (keys : list keyspec) : nat -> nat -> bool :=
  less_keys (map key_compare keys).

Definition key_spec (ks : keyspec) : nat -> nat -> bool :=
  let '(k, (rev, nl)) := ks in key_lt_spec rev nl (key_isnull k) (key_vlt k).

Definition spec_lt (keys : list keyspec) : nat -> nat -> bool :=
  lex_lt_spec (map key_spec keys).

Definition rank_lt (ranks : list N) (a b : nat) : bool := nthd ranks 0 a <? nthd ranks 0 b.

Definition matrix_lt (m : list (list bool)) (a b : nat) : bool := nthd (nthd m [] a) false b.

Definition replay (exact : bool) (lt : nat -> nat -> bool) (input output : list nat) : N :=
  if exact then
    match sort_ids lt input with
    | Ok o => if list_eqb Nat.eqb o output then 0 else 1
    | _ => 3
    end
  else 0.

(* row ids and ranks travel as primitive 63-bit integers: one node per id keeps the shard files
   cheap to type-check (a unary numeral per id would make them huge, and even binary N numerals
   cost three times as much).  They are only decoded here; no theorem depends on them. *)
Definition ids (l : list int) : list nat := map (fun i => Z.to_nat (Uint63.to_Z i)) l.

(* ---- QFrame.Sort on physical frames (Model/SortFrame.v) *)

(* an enum cell as a sort key: None = null, Some r = the stored rank = the declared position *)
Definition enum_rank_key (r : N) : option N := if enum_is_null r then None else Some r.

(* the sort key a physical column stands for *)
Definition col_key (c : coldata) : keydata :=
  match c with
  | ICol d => KInt d
  | FCol d => KFloat d
  | BCol d => KBool d
  | SCol d => KStr d
  | ECol d _ _ => KEnum (map enum_rank_key d)
  end.

(* the key list of the statement for a list of orders; None = some order names no column of the frame *)
Fixpoint frame_keys (f : frame) (orders : list order) : option (list keyspec) :=
  match orders with
  | [] => Some []
  | o :: rest =>
      match lookup_col f (o_column o), frame_keys f rest with
      | Some c, Some ks => Some ((col_key c, (o_reverse o, o_nulllast o)) :: ks)
      | _, _ => None
      end
  end.

Definition col_obs_eqb (a b : coldata) : bool :=
  match a, b with
  | ICol x, ICol y => list_eqb Z.eqb x y
  | FCol x, FCol y => list_eqb (fun p q => (p =? q) || (Frame.f_isnan p && Frame.f_isnan q)) x y
  | BCol x, BCol y => list_eqb Bool.eqb x y
  | SCol x, SCol y => list_eqb opt_bytes_eqb x y
  | ECol x vx sx, ECol y vy sy => list_eqb N.eqb x y && list_eqb bytes_eqb vx vy && Bool.eqb sx sy
  | _, _ => false
  end.

Definition cols_obs_eqb (a b : list (bytes * coldata)) : bool :=
  list_eqb (fun x y => bytes_eqb (fst x) (fst y) && col_obs_eqb (snd x) (snd y)) a b.

Definition frame_obs_eqb (m o : frame) : bool :=
  Bool.eqb (ferr m) (ferr o) &&
  (ferr o || (cols_obs_eqb (cols m) (cols o) && list_eqb Nat.eqb (ix m) (ix o))).

(* the rows of [g] read through its index are the rows of [f] at the same row ids (rows stay whole) *)
Definition rows_whole_b (f g : frame) : bool :=
  match omap (row_at g) (ix g), omap (row_at f) (ix g) with
  | Ok a, Ok b => list_eqb (list_eqb cell_obs_eqb) a b
  | _, _ => false
  end.

(* the property oracle for one Sort call: sticky Err; an order naming no column => Err; otherwise no Err,
   the columns physically identical, the index a permutation of the receiver's without adjacent inversion
   in the order worded by the property, every row read through the new index = the receiver's row *)
Definition sort_frame_oracle (f : frame) (orders : list order) (out : frame) : bool :=
  if ferr f then ferr out
  else match frame_keys f orders with
       | None => ferr out
       | Some keys =>
           negb (ferr out) && cols_obs_eqb (cols f) (cols out)
           && sorted_perm_b (spec_lt keys) (ix f) (ix out)
           && rows_whole_b f out
       end.

Definition dump_frame (d : fdump) : frame := mkFrame (fst (fst d)) (ids (snd (fst d))) (snd d).

Definition check_sframe (exact : bool) (fin : fdump) (orders : list order) (fout : fdump) : N :=
  let f := dump_frame fin in let out := dump_frame fout in
  if negb (sort_frame_oracle f orders out) then 2
  else if exact then
    match sort_frame f orders with
    | Ok g => if frame_obs_eqb g out then 0 else 1
    | Fail => 1
    | Panic => 3
    end
  else 0.

Definition check_sort (c : sort_case) : N :=
  match c with
  | SKeys exact keys input output =>
      let input := ids input in let output := ids output in
      if negb (sorted_perm_b (spec_lt keys) input output) then 2
      else replay exact (model_lt keys) input output
  | SRank exact ranks input output =>
      let input := ids input in let output := ids output in
      let ranks := map (fun i => Z.to_N (Uint63.to_Z i)) ranks in
      if negb (sorted_perm_b (rank_lt ranks) input output) then 2
      else replay exact (rank_lt ranks) input output
  | SMatrix m input output =>
      let input := ids input in let output := ids output in
      if negb (perm_b output input) then 2
      else replay true (matrix_lt m) input output
  | SFrame exact fin orders fout => check_sframe exact fin orders fout
  end.
