(* Corr/GrouperCorr.v — correspondence cases for Model/Grouper.v (engine "group").

   GTab: the real internal/grouper table driven through the hook by harness-chosen equality classes and
         hash values; the model runs on the same tables and must produce the same groups in the same
         (slot) order, the same distinct ids and the same GroupStats (code 1); the verified checkers
         partition_b / distinct_b are applied to what the implementation returned (code 2).
   GApi: QFrame.GroupBy(...).QFrames() / QFrame.Distinct(...) on real frames; equality is rebuilt here from
         the raw key cells (cell_equal); the runtime memhash is seeded per process, so the group ORDER is
         not comparable: the harness sorts the groups by first row id; checkers = code 2, the model run
         with a stand-in memhash and sorted the same way = code 1. *)
From Coq Require Import FSets.FMapPositive.
From QF Require Import Base.Prelude Base.CaseLib Model.Grouper.
Local Open Scope N_scope.

Inductive group_case :=
| GTab (rows : list (N * option N * N))
       (* (row id, equality class or None = equal to nothing, 64 bit hash), in index order *)
       (groups : list (list N)) (dist : list N)
       (stats : N * N * N * N * N)
       (* RelocationCount, RelocationCollisions, InsertCollisions, GroupCount, LoadFactor * 2^32 *)
| GApi (nulleq : bool) (rows : list (N * list cell))
       (groups : list (list N)) (dist : list N).

Definition key (i : N) : positive := N.succ_pos i.

Definition mk_map {V} (rows : list (N * V)) : PositiveMap.t V :=
  fold_left (fun m r => PositiveMap.add (key (fst r)) (snd r) m) rows (PositiveMap.empty V).

Definition ll_eqb (a b : list (list N)) : bool := list_eqb (list_eqb N.eqb) a b.

(* insertion sort of groups by their first row id (canonical order of a set of groups) *)
Definition head_key (g : list N) : N := match g with x :: _ => x | [] => 0 end.
Fixpoint ins_group (g : list N) (gs : list (list N)) : list (list N) :=
  match gs with
  | [] => [g]
  | h :: r => if head_key g <=? head_key h then g :: gs else h :: ins_group g r
  end.
Definition canon (gs : list (list N)) : list (list N) := fold_right ins_group [] gs.
Fixpoint ins_n (x : N) (l : list N) : list N :=
  match l with [] => [x] | h :: r => if x <=? h then x :: l else h :: ins_n x r end.
Definition sort_n (l : list N) : list N := fold_right ins_n [] l.

(* stand-in for runtime.memhash in the API cases (any function would do: C04 holds for every memhash) *)
Definition toy_memhash (b : bytes) (seed : N) : N :=
  fold_left (fun acc x => N.land (acc * 33 + x + 1) 0xFFFFFFFFFFFF) b (seed + 5381).

(* decidable equality of table rows *)
Definition row_eqb (a b : N * option N * N) : bool :=
  if fst (fst a) =? fst (fst b)
  then (if option_eqb N.eqb (snd (fst a)) (snd (fst b)) then snd a =? snd b else false)
  else false.

Definition cell_eqb (a b : cell) : bool :=
  match a, b with
  | CInt x, CInt y => (x =? y)%Z
  | CFloat x, CFloat y => x =? y
  | CBool x, CBool y => Bool.eqb x y
  | CStr x, CStr y => option_eqb bytes_eqb x y
  | CEnum x, CEnum y => x =? y
  | _, _ => false
  end.
Definition arow_eqb (a b : N * list cell) : bool :=
  if fst a =? fst b then list_eqb cell_eqb (snd a) (snd b) else false.

Definition check_group (c : group_case) : N :=
  match c with
  | GTab rows groups dist stats =>
      (* the model is polymorphic in the type of row ids: run it on the rows themselves, so that the
         class and the hash of a row are projections instead of table look-ups *)
      let m := mk_map (map (fun r => (fst (fst r), r)) rows) in
      let row i := match PositiveMap.find (key i) m with Some r => r | None => (i, None, 0) end in
      let rid (r : N * option N * N) := fst (fst r) in
      let eqb (a b : N * option N * N) :=
        match snd (fst a), snd (fst b) with Some x, Some y => x =? y | _, _ => false end in
      let igroups := map (map row) groups in
      let idist := map row dist in
      if negb (partition_b row_eqb eqb rows igroups && distinct_b row_eqb eqb rows idist) then 2
      else
        match group_index eqb snd true rows, distinct_ids_gen eqb snd rows with
        | Ok t, Ok d =>
            let gs := map (@members _) (occ (entries t)) in
            let '(irc, ircoll, iicoll, igc, ilf) := stats in
            if ll_eqb (map (map rid) gs) groups && list_eqb N.eqb (map rid d) dist
               && (reloc_count t =? irc) && (reloc_coll t =? ircoll) && (insert_coll t =? iicoll)
               && (group_count t =? igc) && (lf_num t * 2^32 =? ilf * lf_den t)
            then 0 else 1
        | _, _ => 3
        end
  | GApi nulleq rows groups dist =>
      (* as above: the rows themselves serve as row ids *)
      let m := mk_map (map (fun r => (fst r, r)) rows) in
      let row i := match PositiveMap.find (key i) m with Some r => r | None => (i, []) end in
      let eqb (a b : N * list cell) := key_equal nulleq (snd a) (snd b) in
      (* rand.Uint64() of a null key under Null(false): any value; take one that depends on the row *)
      let hsh (a : N * list cell) :=
        key_hash toy_memhash nulleq (fun col => fst a * 7919 + N.of_nat col) (snd a) in
      let igroups := map (map row) groups in
      let idist := map row dist in
      if negb (partition_b arow_eqb eqb rows igroups && distinct_b arow_eqb eqb rows idist) then 2
      else
        match group_ids_gen eqb hsh rows, distinct_ids_gen eqb hsh rows with
        | Ok gs, Ok d =>
            if ll_eqb (canon (map (map fst) gs)) groups && list_eqb N.eqb (sort_n (map fst d)) dist
            then 0 else 1
        | _, _ => 3
        end
  end.
