(* Corr/StringsCorr.v — correspondence cases for Model/Utf8.v, Model/Json.v, Model/Match.v
   (engine "strings").  Codes: 0 agree, 1 model <> implementation, 2 the property oracle rejects what
   the implementation returned, 3 the model faulted where the implementation did not. *)
From QF Require Import Base.Prelude Base.CaseLib Model.Utf8 Model.Json Model.Match Model.Bits.
From QF Require Import Model.Ryu Model.Frame Model.Filter Model.Ops Model.JsonRead.
Local Open Scope N_scope.

(* ------------------------------------------------------------------ oracle tables shipped per case *)
Definition up_of (tbl : list (N * Z)) (c : N) : Z :=
  match find (fun e => fst e =? c) tbl with
  | Some e => snd e
  | None => (-7)%Z          (* a rune missing from the table makes the case fail visibly *)
  end.

Definition re_of (tbl : list (bytes * bytes * option bool)) (pat s : bytes) : option bool :=
  match find (fun e => bytes_eqb (fst (fst e)) pat && bytes_eqb (snd (fst e)) s) tbl with
  | Some e => snd e
  | None => None
  end.

(* The specification-level functions used as property oracles (code 2) — upper_spec, like_spec — are
   defined at the end of Model/Match.v; they do not call the model of the code under test. *)

(* ------------------------------------------------------------------ case types *)
Inductive match_obs :=
| MPanic                                   (* the implementation panicked *)
| MErr                                     (* NewMatcher returned an error *)
| MOk (kind : N) (res : list bool).        (* matcher type chosen, Matches per cell (in call order) *)

Inductive strings_case :=
(* DecodeRuneInString(prefix ++ [b]) for b = 0..255, each coded as rune*8 + width *)
| SDecRow (prefix : bytes) (codes : list N)
(* a whole string: utf8.ValidString, the (offset, rune) pairs of a range loop *)
| SDecStr (s : bytes) (valid : bool) (rng : list (nat * N))
(* EncodeRune / RuneLen: (rune, bytes written, RuneLen) *)
| SEnc (items : list (Z * bytes * Z))
(* AppendQuotedString(prefix, s), QuotedBytes(s); None = panic *)
| SEsc (prefix s : bytes) (out : option bytes) (qb : option bytes)
(* ToUpper: table of unicode.ToUpper, initial buffer, successive calls
   (input, result, len of buffer afterwards, its contents when short); None = panic *)
| SUp (tbl : list (N * Z)) (buf : bytes)
      (calls : option (list (bytes * bytes * nat * option bytes)))
(* NewMatcher(pattern, cs) and Matches on successive cells *)
| SMatch (tbl : list (N * Z)) (pu : bytes) (retbl : list (bytes * bytes * option bool))
         (p : bytes) (cs : bool) (cells : list bytes) (obs : match_obs)
(* ToJSON of a frame: names, per-row cell renderings, observed output; None = panic/error *)
| SDoc (names : list bytes) (rows : list (list bytes)) (out : option bytes)
(* json-frame: the physical dump of a frame and the bytes qf.ToJSON wrote; None = error / panic *)
| SJFrame (f : frame) (out : option bytes)
(* json-read: qframe.ReadJSON(doc, ColumnOrder(order...), Enums(enums)).  src = the frame the document was
   written from (None for hand-made / damaged documents), pf = strconv.ParseFloat on every number token of
   the document (None = range error), res = the dump of the frame that came back *)
| SJRead (src : option frame) (doc : bytes) (order : list bytes) (enums : list (bytes * list bytes))
         (pf : list (bytes * option N)) (res : frame).

Definition kind_code (k : mkind) : N :=
  match k with
  | KContains => 0 | KSuffix => 1 | KPrefix => 2 | KExact => 3
  | KCIContains => 4 | KCISuffix => 5 | KCIPrefix => 6 | KCIExact => 7
  | KRegex => 8
  end.

Definition pair_nat_N_eqb (a b : nat * N) : bool := Nat.eqb (fst a) (fst b) && (snd a =? snd b).

Definition all_byte_values : list N := map N.of_nat (seq 0 256).

(* ------------------------------------------------------------------ checks *)
Definition check_decrow (prefix : bytes) (codes : list N) : N :=
  let mine := map (fun b => let rw := decode_rune (prefix ++ [b]) in fst rw * 8 + N.of_nat (snd rw))
                  all_byte_values in
  if list_eqb N.eqb mine codes then 0 else 1.

Definition check_decstr (s : bytes) (valid : bool) (rng : list (nat * N)) : N :=
  if Bool.eqb (utf8_valid s) valid && list_eqb pair_nat_N_eqb (range_string s) rng then 0 else 1.

Definition check_enc (items : list (Z * bytes * Z)) : N :=
  if forallb (fun it => let '(r, out, rl) := it in
                        bytes_eqb (encode_rune r) out && (rune_len r =? rl)%Z) items
  then 0 else 1.

(* property oracle of json-escape: the bytes after the prefix read back, by the RFC reader, as the
   sanitized input and nothing is left over *)
Definition esc_oracle (prefix s out : bytes) : bool :=
  bytes_eqb (firstn (length prefix) out) prefix &&
  match json_parse_string (skipn (length prefix) out) with
  | Some (cps, []) => list_eqb N.eqb cps (utf8_sanitize s)
  | _ => false
  end.

Definition check_esc (prefix s : bytes) (out qb : option bytes) : N :=
  match out, qb with
  | Some o, Some q =>
      if negb (esc_oracle prefix s o && esc_oracle [] s q) then 2
      else match append_quoted_string prefix s, quoted_bytes s with
           | Ok o', Ok q' => if bytes_eqb o o' && bytes_eqb q q' then 0 else 1
           | _, _ => 3
           end
  | _, _ => 2      (* the escaper must not panic *)
  end.

Fixpoint check_up_calls (up : N -> Z) (buf : bytes)
         (calls : list (bytes * bytes * nat * option bytes)) : N :=
  match calls with
  | [] => 0
  | (s, res, blen, bcont) :: cs =>
      if utf8_valid s && negb (bytes_eqb res (upper_spec up s)) then 2
      else match to_upper up buf s with
           | Ok (res', buf') =>
               if bytes_eqb res res' && Nat.eqb (length buf') blen
                  && match bcont with Some bc => bytes_eqb bc buf' | None => true end
               then check_up_calls up buf' cs else 1
           | _ => 3
           end
  end.

Definition check_up (tbl : list (N * Z)) (buf : bytes)
           (calls : option (list (bytes * bytes * nat * option bytes))) : N :=
  match calls with
  | None => 2
  | Some cs => check_up_calls (up_of tbl) buf cs
  end.

(* model: run NewMatcher and Matches on the cells in order, threading the matcher state *)
Fixpoint model_matches (up : N -> Z) (re : bytes -> bytes -> option bool) (m : matcher)
         (cells : list bytes) : outcome (list bool) :=
  match cells with
  | [] => Ok []
  | c :: cs =>
      do bm <- matches up re m c;
      do r <- model_matches up re (snd bm) cs;
      Ok (fst bm :: r)
  end.

Definition check_match (tbl : list (N * Z)) (pu : bytes) (retbl : list (bytes * bytes * option bool))
           (p : bytes) (cs : bool) (cells : list bytes) (obs : match_obs) : N :=
  let up := up_of tbl in
  let re := re_of retbl in
  (* oracle, on the cells that are valid UTF-8 (the property quantifies over those) *)
  let oracle_ok :=
    match obs with
    | MPanic => false
    | MErr => match like_spec up pu re p cs [] with None => true | Some _ => false end
    | MOk _ res =>
        (length res =? length cells)%nat &&
        forallb (fun cr => let '(c, r) := cr in
                           if utf8_valid c && utf8_valid p
                           then option_eqb Bool.eqb (like_spec up pu re p cs c) (Some r)
                           else true) (combine cells res)
    end in
  if negb oracle_ok then 2
  else
    match new_matcher (fun _ => pu) re p cs, obs with
    | Fail, MErr => 0
    | Fail, _ => 1
    | Ok m, MOk k res =>
        match model_matches up re m cells with
        | Ok res' => if (kind_code (m_kind m) =? k) && list_eqb Bool.eqb res res' then 0 else 1
        | _ => 3
        end
    | Ok _, _ => 1
    | Panic, _ => 3
    end.

(* property oracle of json-doc: the document reader accepts the output and finds one object per row,
   keys = sanitized column names in column order, values = the tokens the cells denote *)
Definition jtoken_eqb (a b : jtoken) : bool :=
  match a, b with
  | JNull, JNull => true
  | JBool x, JBool y => Bool.eqb x y
  | JNum x, JNum y => bytes_eqb x y
  | JStr x, JStr y => list_eqb N.eqb x y
  | _, _ => false
  end.

Definition jmember_eqb (a b : jmember) : bool :=
  list_eqb N.eqb (fst a) (fst b) && jtoken_eqb (snd a) (snd b).

Definition token_of (cell : bytes) : option jtoken :=
  match parse_value (cell ++ [c_comma]) with
  | Some (t, [0x2C]) => Some t
  | _ => None
  end.

Fixpoint expected_members (names : list bytes) (cells : list bytes) : option (list jmember) :=
  match names, cells with
  | [], [] => Some []
  | n :: ns, c :: cs =>
      match token_of c, expected_members ns cs with
      | Some t, Some ms => Some ((utf8_sanitize n, t) :: ms)
      | _, _ => None
      end
  | _, _ => None
  end.

Fixpoint expected_doc (names : list bytes) (rows : list (list bytes)) : option (list (list jmember)) :=
  match rows with
  | [] => Some []
  | r :: rs =>
      match expected_members names r, expected_doc names rs with
      | Some o, Some os => Some (o :: os)
      | _, _ => None
      end
  end.

Definition doc_oracle (names : list bytes) (rows : list (list bytes)) (out : bytes) : bool :=
  match parse_doc out, expected_doc names rows with
  | Some d, Some e => list_eqb (list_eqb jmember_eqb) d e
  | _, _ => false
  end.

Definition check_doc (names : list bytes) (rows : list (list bytes)) (out : option bytes) : N :=
  match out with
  | None => 2
  | Some o =>
      if negb (doc_oracle names rows o) then 2
      else match to_json names rows with
           | Ok o' => if bytes_eqb o o' then 0 else 1
           | _ => 3
           end
  end.

(* ================================================================== json-frame / json-read (C14 at frame level)

   Specification side of the oracles.  Nothing below calls the model of the code under test (frame_to_json,
   cell_json, read_json): the frame is read through abs, the document through the Coq RFC 8259 reader
   (decode_doc = parse_doc + the value of every token), floats through the rounding interval test. *)

(* y * 10^k lies in the rounding interval of the decoded float fd (the interval test of the C16
   certificate checker, Proofs/RyuShortest.v sc_in, written out) *)
Definition in_round_interval (fd : fdec) (k : Z) (y : N) : bool :=
  let v := scale_flt k (f_e2 fd) (4 * f_m2 fd) in
  let u := scale_flt k (f_e2 fd) 1 in
  in_interval (N.even (f_m2 fd)) (v - f_lowgap fd * u) (v + 2 * u) (scale_dec k (f_e2 fd) y).

(* the same number written with fewer trailing zeros: m * 10^e = (m / 10) * 10^(e + 1) when 10 divides m.
   Every representation is tried (they denote the same number). *)
Fixpoint interval_any (fuel : nat) (fd : fdec) (m : N) (e : Z) : bool :=
  if in_round_interval fd e m then true
  else match fuel with
       | O => false
       | S g => if (0 <? m) && (m mod 10 =? 0) then interval_any g fd (m / 10) (e + 1) else false
       end.

(* a number token (-1)^neg * m * 10^e parses back to the float with this bit pattern (finite, not NaN):
   the sign is the sign bit (zeros included: -0 is written with its sign), a zero is written as a zero,
   any other float as a decimal inside its rounding interval *)
Definition float_denoted (bits : N) (neg : bool) (m : N) (e : Z) : bool :=
  Bool.eqb neg (negb (bits / 2 ^ 63 =? 0)) &&
  match decode_float bits with
  | Some fd => interval_any (N.to_nat (N.size m)) fd m e       (* m has fewer trailing zeros than bits *)
  | None => (N.land bits f_abs_mask =? 0) && (m =? 0)
  end.

(* (-1)^neg * m * 10^e = z *)
Definition int_denoted (z : Z) (neg : bool) (m : N) (e : Z) : bool :=
  let a := Z.abs_N z in
  ((0 <=? e)%Z && (m * 10 ^ Z.to_N e =? a) || (e <? 0)%Z && (m =? a * 10 ^ Z.to_N (- e)))
  && ((a =? 0) || Bool.eqb neg (z <? 0)%Z).

Definition cell_denoted (c : cell) (v : jval) : bool :=
  match c, v with
  | CInt z, VNum neg m e => int_denoted z neg m e
  | CFloat b, VNull => f_isnan b
  | CFloat b, VNum neg m e => negb (f_isnan b) && negb (f_isinf b) && float_denoted b neg m e
  | CBool b, VBool b' => Bool.eqb b b'
  | CStr None, VNull | CEnum None, VNull => true
  | CStr (Some s), VStr cps | CEnum (Some s), VStr cps => list_eqb N.eqb cps (utf8_sanitize s)
  | _, _ => false
  end.

Fixpoint object_denotes (names : list bytes) (row : list cell) (obj : list (list N * jval)) : bool :=
  match names, row, obj with
  | [], [], [] => true
  | n :: ns, c :: cs, (k, v) :: ms =>
      list_eqb N.eqb k (utf8_sanitize n) && cell_denoted c v && object_denotes ns cs ms
  | _, _, _ => false
  end.

Fixpoint objects_denote (names : list bytes) (rows : list (list cell)) (objs : list (list (list N * jval))) : bool :=
  match rows, objs with
  | [], [] => true
  | r :: rs, o :: os => object_denotes names r o && objects_denote names rs os
  | _, _ => false
  end.

(* C14, first sentence: the output is a JSON array with one object per row, in row order, keys in column
   order, whose decoded values equal the cells *)
Definition json_table_oracle (t : table) (out : bytes) : bool :=
  match decode_doc out with
  | Some objs => objects_denote (tnames t) (trows t) objs
  | None => false
  end.

Definition cell_has_inf (c : cell) : bool := match c with CFloat b => f_isinf b | _ => false end.

Definition check_jframe (f : frame) (out : option bytes) : N :=
  if ferr f then
    match out, frame_to_json f with
    | None, Fail => 0
    | _, Panic => 3
    | _, _ => 1
    end
  else
    match abs f with
    | Ok t =>
        if existsb (existsb cell_has_inf) (trows t) then 0           (* outside the property's domain *)
        else
          match out with
          | None => 2
          | Some o =>
              if negb (json_table_oracle t o) then 2
              else match frame_to_json f with
                   | Ok o' => if bytes_eqb o o' then 0 else 1
                   | _ => 3
                   end
          end
    | _ => 3                                                         (* the dump is not a well formed frame *)
    end.

(* ------------------------------------------------------------------ json-read *)

Definition pf_of (tbl : list (bytes * option N)) (text : bytes) : option N :=
  match assocb text tbl with Some r => r | None => None end.

Definition col_phys_eqb (a b : coldata) : bool :=
  match a, b with
  | ICol x, ICol y => list_eqb Z.eqb x y
  | FCol x, FCol y => list_eqb N.eqb x y
  | BCol x, BCol y => list_eqb Bool.eqb x y
  | SCol x, SCol y => list_eqb opt_bytes_eqb x y
  | ECol x vx sx, ECol y vy sy => list_eqb N.eqb x y && list_eqb bytes_eqb vx vy && Bool.eqb sx sy
  | _, _ => false
  end.

Definition frame_phys_eqb (m o : frame) : bool :=
  Bool.eqb (ferr m) (ferr o) &&
  list_eqb (fun x y => bytes_eqb (fst x) (fst y) && col_phys_eqb (snd x) (snd y)) (cols m) (cols o) &&
  list_eqb Nat.eqb (ix m) (ix o).

(* the float64 nearest to the integer z, ties to even (what a correctly rounding reader returns for the
   decimal text of z; for |z| <= 2^53 the float equal to z) *)
Definition int_to_float_spec (z : Z) : N :=
  let a := Z.abs_N z in
  if a =? 0 then 0
  else
    let k := N.size a in                                   (* 2^(k-1) <= a < 2^k *)
    let sgn := if (z <? 0)%Z then 2 ^ 63 else 0 in
    if k <=? 53 then sgn + (k - 1 + 1023) * 2 ^ 52 + (a * 2 ^ (53 - k) - 2 ^ 52)
    else
      let sh := k - 53 in
      let q := a / 2 ^ sh in
      let r := a mod 2 ^ sh in
      let half := 2 ^ (sh - 1) in
      let q' := if (half <? r) || ((half =? r) && N.odd q) then q + 1 else q in
      (* q' = 2^53 carries into the exponent: mantissa field 0, exponent + 1 — the sum below does that *)
      sgn + (k - 1 + 1023) * 2 ^ 52 + (q' - 2 ^ 52).

Definition enum_conf_of (cs : list (bytes * coldata)) : list (bytes * list bytes) :=
  flat_map (fun nc => match snd nc with ECol _ vs _ => [(fst nc, vs)] | _ => [] end) cs.

Definition enums_eqb (a b : list (bytes * list bytes)) : bool :=
  list_eqb (fun x y => bytes_eqb (fst x) (fst y) && list_eqb bytes_eqb (snd x) (snd y)) a b.

(* the premises of C14_readback, decided *)
Definition rb_cell_okb (c : cell) : bool :=
  match c with
  | CFloat b => (b <? 2 ^ 64) && negb (f_isnan b) && negb (f_isinf b)
  | CStr (Some s) | CEnum (Some s) => utf8_valid s
  | _ => true
  end.

Definition rb_premises (f : frame) (t : table) : bool :=
  negb (ferr f) && wf_frame f &&
  negb (Nat.eqb (length (cols f)) 0) && negb (Nat.eqb (length (ix f)) 0) &&
  nodup_bytes (col_names f) &&
  forallb (fun n => utf8_valid n && check_name n) (col_names f) &&
  forallb (fun nc => match snd nc with ECol _ vs _ => nodup_bytes vs | _ => true end) (cols f) &&
  forallb (forallb rb_cell_okb) (trows t).

(* what must come back: ints as the equal-valued (nearest) float, everything else identical; without an
   Enums declaration an enum column can only come back as a string column with the same cells *)
Definition rb_cell_spec (with_enums : bool) (c : cell) : cell :=
  match c with
  | CInt z => CFloat (int_to_float_spec z)
  | CEnum s => if with_enums then CEnum s else CStr s
  | c => c
  end.
Definition rb_type_spec (with_enums : bool) (ty : ctype) : ctype :=
  match ty with TInt => TFloat | TEnum => if with_enums then TEnum else TString | ty => ty end.

Definition cell_exact_eqb (a b : cell) : bool :=
  match a, b with
  | CFloat x, CFloat y => x =? y
  | CInt x, CInt y => Z.eqb x y
  | CBool x, CBool y => Bool.eqb x y
  | CStr x, CStr y => opt_bytes_eqb x y
  | CEnum x, CEnum y => opt_bytes_eqb x y
  | _, _ => false
  end.

Definition table_col (t : table) (k : nat) : ctype * list cell :=
  (nth k (ttypes t) TInt, map (fun row => nth k row (CInt 0)) (trows t)).

Fixpoint index_of (n : bytes) (l : list bytes) (k : nat) : option nat :=
  match l with
  | [] => None
  | x :: r => if bytes_eqb x n then Some k else index_of n r (S k)
  end.

Definition table_exact_eqb (a b : table) : bool :=
  list_eqb bytes_eqb (tnames a) (tnames b) && list_eqb ctype_eqb (ttypes a) (ttypes b)
  && list_eqb (list_eqb cell_exact_eqb) (trows a) (trows b).

(* the table C14 asks for *)
Definition readback_expected (with_enums : bool) (t : table) : table :=
  mkTable (tnames t) (map (rb_type_spec with_enums) (ttypes t)) (map (map (rb_cell_spec with_enums)) (trows t)).

(* with ColumnOrder the table that came back is the expected one; without, it has under every name of the
   source the expected column (the columns come back in another order) *)
Definition readback_table_ok (with_order with_enums : bool) (t t' : table) : bool :=
  if with_order then table_exact_eqb t' (readback_expected with_enums t)
  else
    Nat.eqb (length (tnames t')) (length (tnames t)) &&
    Nat.eqb (length (trows t')) (length (trows t)) &&
    forallb (fun r => Nat.eqb (length r) (length (tnames t'))) (trows t') &&
    forallb (fun k =>
               match index_of (nth k (tnames t) []) (tnames t') 0 with
               | None => false
               | Some k' =>
                   let '(ty, cells) := table_col t k in
                   let '(ty', cells') := table_col t' k' in
                   ctype_eqb ty' (rb_type_spec with_enums ty) &&
                   list_eqb cell_exact_eqb cells' (map (rb_cell_spec with_enums) cells)
               end) (seq 0 (length (tnames t))).

(* C14, second sentence.  It speaks when the source frame satisfies the premises of C14_readback and the
   configuration is ColumnOrder(all names) or none, Enums(every enum column with its value table) or none. *)
Definition readback_oracle (src : option frame) (order : list bytes) (enums : list (bytes * list bytes))
           (res : frame) : bool :=
  match src with
  | None => true
  | Some f =>
      match abs f with
      | Ok t =>
          let with_order := list_eqb bytes_eqb order (col_names f) in
          let with_enums := enums_eqb enums (enum_conf_of (cols f)) in
          let has_enum := negb (Nat.eqb (length (enum_conf_of (cols f))) 0) in
          if rb_premises f t
             && (with_order || Nat.eqb (length order) 0)
             && (with_enums || Nat.eqb (length enums) 0)
          then
            negb (ferr res) &&
            match abs res with
            | Ok t' => readback_table_ok with_order (with_enums || negb has_enum) t t'
            | _ => false
            end
          else true
      | _ => true
      end
  end.

Definition check_jread (src : option frame) (doc : bytes) (order : list bytes) (enums : list (bytes * list bytes))
           (pf : list (bytes * option N)) (res : frame) : N :=
  if negb (readback_oracle src order enums res) then 2
  else
    match read_json (pf_of pf) doc order enums with
    | Ok g => if frame_phys_eqb g res then 0 else 1
    | Fail => if ferr res then 0 else 1      (* outside the Coq reader's documents: ReadJSON must fail too *)
    | Panic => 3
    end.

Definition check_strings (c : strings_case) : N :=
  match c with
  | SDecRow prefix codes => check_decrow prefix codes
  | SDecStr s valid rng => check_decstr s valid rng
  | SEnc items => check_enc items
  | SEsc prefix s out qb => check_esc prefix s out qb
  | SUp tbl buf calls => check_up tbl buf calls
  | SMatch tbl pu retbl p cs cells obs => check_match tbl pu retbl p cs cells obs
  | SDoc names rows out => check_doc names rows out
  | SJFrame f out => check_jframe f out
  | SJRead src doc order enums pf res => check_jread src doc order enums pf res
  end.
