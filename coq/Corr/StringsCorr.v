(* Corr/StringsCorr.v — correspondence cases for Model/Utf8.v, Model/Json.v, Model/Match.v
   (engine "strings").  Codes: 0 agree, 1 model <> implementation, 2 the property oracle rejects what
   the implementation returned, 3 the model faulted where the implementation did not. *)
From QF Require Import Base.Prelude Base.CaseLib Model.Utf8 Model.Json Model.Match Model.Bits.
Local Open Scope N_scope.

(* ------------------------------------------------------------------ oracle tables shipped per case *)
Definition up_of (tbl : list (N * Z)) (c : N) : Z :=
  match find (fun e => fst e =? c) tbl with
  | Some e => snd e
  | None => (-7)%Z          (* a rune missing from the table makes the case fail visibly *)
  end.

Definition re_of (tbl : list (bytes * bytes * option bool)) (pat s : bytes) : option bool :=
  match find (fun e => bytes_eqb (fst (fst e)) pat && bytes_eqb (snd (fst e)) s) tbl with
  | Some e => snd e
  | None => None
  end.

(* The specification-level functions used as property oracles (code 2) — upper_spec, like_spec — are
   defined at the end of Model/Match.v; they do not call the model of the code under test. *)

(* ------------------------------------------------------------------ case types *)
Inductive match_obs :=
| MPanic                                   (* the implementation panicked *)
| MErr                                     (* NewMatcher returned an error *)
| MOk (kind : N) (res : list bool).        (* matcher type chosen, Matches per cell (in call order) *)

Inductive strings_case :=
(* DecodeRuneInString(prefix ++ [b]) for b = 0..255, each coded as rune*8 + width *)
| SDecRow (prefix : bytes) (codes : list N)
(* a whole string: utf8.ValidString, the (offset, rune) pairs of a range loop *)
| SDecStr (s : bytes) (valid : bool) (rng : list (nat * N))
(* EncodeRune / RuneLen: (rune, bytes written, RuneLen) *)
| SEnc (items : list (Z * bytes * Z))
(* AppendQuotedString(prefix, s), QuotedBytes(s); None = panic *)
| SEsc (prefix s : bytes) (out : option bytes) (qb : option bytes)
(* ToUpper: table of unicode.ToUpper, initial buffer, successive calls
   (input, result, len of buffer afterwards, its contents when short); None = panic *)
| SUp (tbl : list (N * Z)) (buf : bytes)
      (calls : option (list (bytes * bytes * nat * option bytes)))
(* NewMatcher(pattern, cs) and Matches on successive cells *)
| SMatch (tbl : list (N * Z)) (pu : bytes) (retbl : list (bytes * bytes * option bool))
         (p : bytes) (cs : bool) (cells : list bytes) (obs : match_obs)
(* ToJSON of a frame: names, per-row cell renderings, observed output; None = panic/error *)
| SDoc (names : list bytes) (rows : list (list bytes)) (out : option bytes).

Definition kind_code (k : mkind) : N :=
  match k with
  | KContains => 0 | KSuffix => 1 | KPrefix => 2 | KExact => 3
  | KCIContains => 4 | KCISuffix => 5 | KCIPrefix => 6 | KCIExact => 7
  | KRegex => 8
  end.

Definition pair_nat_N_eqb (a b : nat * N) : bool := Nat.eqb (fst a) (fst b) && (snd a =? snd b).

Definition all_byte_values : list N := map N.of_nat (seq 0 256).

(* ------------------------------------------------------------------ checks *)
Definition check_decrow (prefix : bytes) (codes : list N) : N :=
  let mine := map (fun b => let rw := decode_rune (prefix ++ [b]) in fst rw * 8 + N.of_nat (snd rw))
                  all_byte_values in
  if list_eqb N.eqb mine codes then 0 else 1.

Definition check_decstr (s : bytes) (valid : bool) (rng : list (nat * N)) : N :=
  if Bool.eqb (utf8_valid s) valid && list_eqb pair_nat_N_eqb (range_string s) rng then 0 else 1.

Definition check_enc (items : list (Z * bytes * Z)) : N :=
  if forallb (fun it => let '(r, out, rl) := it in
                        bytes_eqb (encode_rune r) out && (rune_len r =? rl)%Z) items
  then 0 else 1.

(* property oracle of json-escape: the bytes after the prefix read back, by the RFC reader, as the
   sanitized input and nothing is left over *)
Definition esc_oracle (prefix s out : bytes) : bool :=
  bytes_eqb (firstn (length prefix) out) prefix &&
  match json_parse_string (skipn (length prefix) out) with
  | Some (cps, []) => list_eqb N.eqb cps (utf8_sanitize s)
  | _ => false
  end.

Definition check_esc (prefix s : bytes) (out qb : option bytes) : N :=
  match out, qb with
  | Some o, Some q =>
      if negb (esc_oracle prefix s o && esc_oracle [] s q) then 2
      else match append_quoted_string prefix s, quoted_bytes s with
           | Ok o', Ok q' => if bytes_eqb o o' && bytes_eqb q q' then 0 else 1
           | _, _ => 3
           end
  | _, _ => 2      (* the escaper must not panic *)
  end.

Fixpoint check_up_calls (up : N -> Z) (buf : bytes)
         (calls : list (bytes * bytes * nat * option bytes)) : N :=
  match calls with
  | [] => 0
  | (s, res, blen, bcont) :: cs =>
      if utf8_valid s && negb (bytes_eqb res (upper_spec up s)) then 2
      else match to_upper up buf s with
           | Ok (res', buf') =>
               if bytes_eqb res res' && Nat.eqb (length buf') blen
                  && match bcont with Some bc => bytes_eqb bc buf' | None => true end
               then check_up_calls up buf' cs else 1
           | _ => 3
           end
  end.

Definition check_up (tbl : list (N * Z)) (buf : bytes)
           (calls : option (list (bytes * bytes * nat * option bytes))) : N :=
  match calls with
  | None => 2
  | Some cs => check_up_calls (up_of tbl) buf cs
  end.

(* model: run NewMatcher and Matches on the cells in order, threading the matcher state *)
Fixpoint model_matches (up : N -> Z) (re : bytes -> bytes -> option bool) (m : matcher)
         (cells : list bytes) : outcome (list bool) :=
  match cells with
  | [] => Ok []
  | c :: cs =>
      do bm <- matches up re m c;
      do r <- model_matches up re (snd bm) cs;
      Ok (fst bm :: r)
  end.

Definition check_match (tbl : list (N * Z)) (pu : bytes) (retbl : list (bytes * bytes * option bool))
           (p : bytes) (cs : bool) (cells : list bytes) (obs : match_obs) : N :=
  let up := up_of tbl in
  let re := re_of retbl in
  (* oracle, on the cells that are valid UTF-8 (the property quantifies over those) *)
  let oracle_ok :=
    match obs with
    | MPanic => false
    | MErr => match like_spec up pu re p cs [] with None => true | Some _ => false end
    | MOk _ res =>
        (length res =? length cells)%nat &&
        forallb (fun cr => let '(c, r) := cr in
                           if utf8_valid c && utf8_valid p
                           then option_eqb Bool.eqb (like_spec up pu re p cs c) (Some r)
                           else true) (combine cells res)
    end in
  if negb oracle_ok then 2
  else
    match new_matcher (fun _ => pu) re p cs, obs with
    | Fail, MErr => 0
    | Fail, _ => 1
    | Ok m, MOk k res =>
        match model_matches up re m cells with
        | Ok res' => if (kind_code (m_kind m) =? k) && list_eqb Bool.eqb res res' then 0 else 1
        | _ => 3
        end
    | Ok _, _ => 1
    | Panic, _ => 3
    end.

(* property oracle of json-doc: the document reader accepts the output and finds one object per row,
   keys = sanitized column names in column order, values = the tokens the cells denote *)
Definition jtoken_eqb (a b : jtoken) : bool :=
  match a, b with
  | JNull, JNull => true
  | JBool x, JBool y => Bool.eqb x y
  | JNum x, JNum y => bytes_eqb x y
  | JStr x, JStr y => list_eqb N.eqb x y
  | _, _ => false
  end.

Definition jmember_eqb (a b : jmember) : bool :=
  list_eqb N.eqb (fst a) (fst b) && jtoken_eqb (snd a) (snd b).

Definition token_of (cell : bytes) : option jtoken :=
  match parse_value (cell ++ [c_comma]) with
  | Some (t, [0x2C]) => Some t
  | _ => None
  end.

Fixpoint expected_members (names : list bytes) (cells : list bytes) : option (list jmember) :=
  match names, cells with
  | [], [] => Some []
  | n :: ns, c :: cs =>
      match token_of c, expected_members ns cs with
      | Some t, Some ms => Some ((utf8_sanitize n, t) :: ms)
      | _, _ => None
      end
  | _, _ => None
  end.

Fixpoint expected_doc (names : list bytes) (rows : list (list bytes)) : option (list (list jmember)) :=
  match rows with
  | [] => Some []
  | r :: rs =>
      match expected_members names r, expected_doc names rs with
      | Some o, Some os => Some (o :: os)
      | _, _ => None
      end
  end.

Definition doc_oracle (names : list bytes) (rows : list (list bytes)) (out : bytes) : bool :=
  match parse_doc out, expected_doc names rows with
  | Some d, Some e => list_eqb (list_eqb jmember_eqb) d e
  | _, _ => false
  end.

Definition check_doc (names : list bytes) (rows : list (list bytes)) (out : option bytes) : N :=
  match out with
  | None => 2
  | Some o =>
      if negb (doc_oracle names rows o) then 2
      else match to_json names rows with
           | Ok o' => if bytes_eqb o o' then 0 else 1
           | _ => 3
           end
  end.

Definition check_strings (c : strings_case) : N :=
  match c with
  | SDecRow prefix codes => check_decrow prefix codes
  | SDecStr s valid rng => check_decstr s valid rng
  | SEnc items => check_enc items
  | SEsc prefix s out qb => check_esc prefix s out qb
  | SUp tbl buf calls => check_up tbl buf calls
  | SMatch tbl pu retbl p cs cells obs => check_match tbl pu retbl p cs cells obs
  | SDoc names rows out => check_doc names rows out
  end.
