(* Corr/BitsCorr.v — correspondence cases for Model/Bits.v (engine "bits"). *)
From QF Require Import Base.Prelude Base.CaseLib Model.Bits.
Local Open Scope N_scope.

Inductive bits_case :=
| BPtr (o l : N) (isnull : bool) (raw off len : N) (null : bool)   (* NewPointer + accessors *)
| BDec (raw off len : N) (null : bool)                             (* accessors on a raw value *)
| BSet (vals : list N) (words : list N) (isset : list bool).       (* bitset.set* ; isSet 0..255 *)

Definition check_bits (c : bits_case) : N :=
  match c with
  | BPtr o l n raw off len null =>
      let p := new_pointer o l n in
      (* oracle: inside the documented limits the accessors must read back the inputs *)
      if (o <? 2^35) && (l <? 2^28) && negb ((off =? o) && (len =? l) && Bool.eqb null n) then 2
      else if (p =? raw) && (ptr_offset p =? off) && (ptr_len p =? len) && Bool.eqb (ptr_isnull p) null
      then 0 else 1
  | BDec raw off len null =>
      if (ptr_offset raw =? off) && (ptr_len raw =? len) && Bool.eqb (ptr_isnull raw) null then 0 else 1
  | BSet vals words isset =>
      let s := fold_left bitset_set vals bitset_empty in
      let spec := map (fun w => existsb (N.eqb w) vals) (map N.of_nat (seq 0 256)) in
      if negb (list_eqb Bool.eqb isset spec) then 2
      else if list_eqb N.eqb s words
              && list_eqb Bool.eqb (map (bitset_isset s) (map N.of_nat (seq 0 256))) isset
      then 0 else 1
  end.
