(* Corr/IOCorr.v — correspondence cases of the engines "sql" (Model/Sql.v, property C19) and
   "iofault" (Model/IOFault.v, property C15).
   Codes: 0 agree; 1 model <> implementation; 2 the property oracle rejects what the implementation
   returned; 3 the model faulted where the implementation did not. *)
From Coq Require Import String.
From QF Require Import Base.Prelude Base.CaseLib Gen.GenConsts Model.Sql Model.IOFault.
(* opt_all, spec_is_null, spec_column, column_vals, nodupb, prep, g_of, spec_read_gen, spec_read_must_fail *)
From QF Require Export Model.SqlSpec.
Local Open Scope N_scope.

(* ------------------------------------------------------------------ equality on observables *)

Definition dval_eqb (a b : dval) : bool :=
  match a, b with
  | DInt x, DInt y => (x =? y)%Z
  | DFloat x, DFloat y => x =? y
  | DBool x, DBool y => Bool.eqb x y
  | DStr x, DStr y => bytes_eqb x y
  | DBytes x, DBytes y => bytes_eqb x y
  | DNull, DNull => true
  | DOther, DOther => true
  | _, _ => false
  end.

Definition is_nan (b : N) : bool :=
  (N.land (N.shiftr b 52) 0x7FF =? 0x7FF) && negb (N.land b 0xFFFFFFFFFFFFF =? 0).

(* floats as cells: every NaN is one value (reading decision 12) *)
Definition float_cell_eqb (a b : N) : bool := (a =? b) || (is_nan a && is_nan b).

Definition coldata_eqb (feq : N -> N -> bool) (a b : coldata) : bool :=
  match a, b with
  | CInt x, CInt y => list_eqb Z.eqb x y
  | CFloat x, CFloat y => list_eqb feq x y
  | CBool x, CBool y => list_eqb Bool.eqb x y
  | CStr x, CStr y => list_eqb opt_bytes_eqb x y
  | CEnum r v, CEnum r' v' => list_eqb N.eqb r r' && list_eqb bytes_eqb v v'
  | _, _ => false
  end.

Definition cols_eqb (feq : N -> N -> bool) (a b : list (bytes * coldata)) : bool :=
  list_eqb (fun p q => bytes_eqb (fst p) (fst q) && coldata_eqb feq (snd p) (snd q)) a b.

Definition stmt_eqb (a b : stmt) : bool :=
  bytes_eqb (fst a) (fst b) && list_eqb dval_eqb (snd a) (snd b).

Definition status_code (s : status) : N := match s with SOk => 0 | SErr => 1 | SPanic => 2 end.

(* observed result of a ReadSQL call *)
Inductive robs :=
| RFrame (cols : list (bytes * coldata))     (* Err == nil: columns in frame order *)
| RErr
| RPanic.

Definition robs_of (o : outcome (list (bytes * coldata))) : robs :=
  match o with Ok c => RFrame c | Fail => RErr | Panic => RPanic end.

Definition robs_eqb (feq : N -> N -> bool) (a b : robs) : bool :=
  match a, b with
  | RFrame x, RFrame y => cols_eqb feq x y
  | RErr, RErr => true
  | RPanic, RPanic => true
  | _, _ => false
  end.

(* ------------------------------------------------------------------ per-case oracle tables *)

(* internal/math/float.Fixed and strconv.ParseFloat are opaque for the model: the harness ships, per
   case, the table of every (argument, result) pair the case can need. A missing entry yields a
   sentinel that cannot agree with the implementation. *)
Definition fixed_tab := list ((N * Z) * N).
Definition parse_tab := list (bytes * option N).

Definition tab_fixed (t : fixed_tab) (f : N) (p : Z) : N :=
  match find (fun e => (fst (fst e) =? f) && (snd (fst e) =? p)%Z) t with
  | Some e => snd e
  | None => 0xDEADBEEFDEADBEEFDEADBEEF
  end.
Definition tab_parse (t : parse_tab) (s : bytes) : option N :=
  match find (fun e => bytes_eqb (fst e) s) t with
  | Some e => snd e
  | None => Some 0xDEADBEEFDEADBEEFDEADBEEF
  end.

(* ------------------------------------------------------------------ specification side (code 2) *)

Fixpoint join (sep : bytes) (l : list bytes) : bytes :=
  match l with
  | [] => []
  | [x] => x
  | x :: rest => x ++ sep ++ join sep rest
  end.

Definition spec_wrap (s : bytes) (char : Z) : bytes :=
  if (char =? 0)%Z then s else utf8_encode char ++ s ++ utf8_encode char.

(* the statement text the property describes: table and identifiers wrapped in the escape character,
   n placeholders: "?" or $1..$n *)
Definition spec_insert (names : list bytes) (table : bytes) (char : Z) (incr : bool) : bytes :=
  str "INSERT INTO "%string ++ spec_wrap table char ++ str " ("%string
  ++ join (str ","%string) (map (fun n => spec_wrap n char) names)
  ++ str ") VALUES ("%string
  ++ join (str ","%string) (map (fun i => if incr then str "$"%string ++ itoa (N.of_nat i) else str "?"%string) (seq 1 (length names)))
  ++ str ");"%string.

(* logical cell of a column at physical position p (None: the frame is not well formed) *)
Definition spec_cell (c : coldata) (p : nat) : option dval :=
  match c with
  | CInt l => option_map DInt (nth_error l p)
  | CFloat l => option_map DFloat (nth_error l p)
  | CBool l => option_map DBool (nth_error l p)
  | CStr l => option_map (fun s => match s with Some s' => DStr s' | None => DNull end) (nth_error l p)
  | CEnum r v =>
      match nth_error r p with
      | Some rk => if rk =? 255 then Some DNull else option_map DStr (nth_error v (N.to_nat rk))
      | None => None
      end
  end.

(* the rows of the frame in frame order *)
Definition spec_rows (f : frame) : option (list (list dval)) :=
  opt_all (map (fun p => opt_all (map (fun c => spec_cell (snd c) p) (fcols f))) (findex f)).

(* the frame the property demands for a result set (None: outside the quantifier) *)
Definition spec_read (names : list bytes) (rows : list (list dval)) : option (list (bytes * coldata)) :=
  if negb (forallb (fun r => Nat.eqb (length r) (length names)) rows) then None
  else if negb (nodupb names && forallb check_name names) then None
  else if Nat.eqb (length rows) 0 then None
  else option_map (combine names)
                  (opt_all (map (fun j => spec_column (column_vals rows j)) (seq 0 (length names)))).

(* the logical content of a frame as ReadSQL is to return it after a round trip: enum -> string *)
Definition spec_frame (f : frame) : option (list (bytes * coldata)) :=
  match spec_rows f with
  | None => None
  | Some rows => spec_read (map fst (fcols f)) rows
  end.

(* float.Fixed: the cases where the mathematically rounded value is known without floating point
   arithmetic: NaN stays NaN, infinities and |x| >= 2^53 (integers) are unchanged *)
Definition fixed_known (f : N) : bool :=
  let e := N.land (N.shiftr f 52) 0x7FF in
  1075 <=? e.     (* |x| >= 2^52: integer valued, or Inf/NaN *)
Definition fixed_oracle_ok (f r : N) : bool :=
  if is_nan f then is_nan r else r =? f.

(* ------------------------------------------------------------------ engine "sql" *)

Inductive sql_case :=
(* sqlhook.Insert(names, table, escape, incrementing) = text *)
| SqlIns (names : list bytes) (table : bytes) (esc : Z) (incr : bool) (text : bytes)
(* qf.ToSQL(tx, conf) on the recording driver; fail = the Exec number the driver refuses;
   log = statements that reached the driver; res = 0 nil / 1 error / 2 panic *)
| SqlWrite (f : frame) (conf : sql_config) (fail : option nat) (log : list stmt) (res : N)
(* sqlhook.ScanColumn(vals, precision, coerce): Data() and the position of the rejected value;
   panicked = Scan panicked *)
| SqlScan (vals : list dval) (prec : Z) (co : option coerce_kind) (ft : fixed_tab) (pt : parse_tab)
          (data : option coldata) (errAt : option nat) (panicked : bool)
(* qframe.ReadSQL on a canned result set *)
| SqlRead (conf : sql_config) (rs : result_set) (flt : sql_faults) (ft : fixed_tab) (pt : parse_tab) (obs : robs)
(* ToSQL into the store, ReadSQL from the store *)
| SqlRound (f : frame) (conf : sql_config) (obs : robs).

Fixpoint scan_all (fixed : N -> Z -> N) (pf : bytes -> option N) (c : column) (vals : list dval) (i : nat)
  : column * option nat * bool :=
  match vals with
  | [] => (c, None, false)
  | v :: vs =>
      match col_scan fixed pf c v with
      | Ok c' => scan_all fixed pf c' vs (S i)
      | Fail => (c, Some i, false)
      | Panic => (c, None, true)
      end
  end.

Definition opt_nat_eqb (a b : option nat) : bool := option_eqb Nat.eqb a b.

Definition has_coerce (conf : sql_config) : bool :=
  match q_coerce conf with Some (_ :: _) => true | _ => false end.

(* the per-case oracle tables hold every entry the specification of this read can ask for: the text of
   every non-NULL string of a StringToFloat column (and, with Precision > 0, its parsed value), and with
   Precision > 0 every float64 of a column without coercion.  Where an entry is missing the case is
   open for the property oracle (not a violation). *)
Definition tab_has_fixed (t : fixed_tab) (f : N) (p : Z) : bool :=
  existsb (fun e => (fst (fst e) =? f) && (snd (fst e) =? p)%Z) t.
Definition tab_has_parse (t : parse_tab) (s : bytes) : bool :=
  existsb (fun e => bytes_eqb (fst e) s) t.
Definition val_known (ft : fixed_tab) (pt : parse_tab) (prec : Z) (co : option coerce_kind) (v : dval) : bool :=
  match co, v with
  | Some CoStringToFloat, DStr s =>
      tab_has_parse pt s &&
      match tab_parse pt s with
      | Some x => (prec <=? 0)%Z || tab_has_fixed ft x prec
      | None => true
      end
  | Some _, _ => true
  | None, DFloat x => (prec <=? 0)%Z || tab_has_fixed ft x prec
  | None, _ => true
  end.
Definition tabs_cover (ft : fixed_tab) (pt : parse_tab) (conf : sql_config) (names : list bytes)
           (rows : list (list dval)) : bool :=
  forallb (fun r => forallb (fun nv => val_known ft pt (q_precision conf) (co_of conf (fst nv)) (snd nv))
                            (combine names r)) rows.

Definition check_sql (c : sql_case) : N :=
  match c with
  | SqlIns names table esc incr text =>
      let conf := mkCfg table esc incr 0 None in
      if negb (bytes_eqb text (spec_insert names table esc incr)) then 2
      else if bytes_eqb text (insert_text names conf) then 0 else 1
  | SqlWrite f conf fail log res =>
      let exec_ok := fun k => match fail with Some j => negb (Nat.eqb j k) | None => true end in
      let '(mlog, mst) := to_sql f conf exec_ok in
      (* oracle: one INSERT per row of the frame in frame order, up to and including the refused one *)
      let spec_ok :=
        match spec_rows f with
        | None => true
        | Some rows =>
            let all := map (fun r => (spec_insert (map fst (fcols f)) (q_table conf) (q_escape conf) (q_incr conf), r)) rows in
            match fail with
            | Some j => if Nat.ltb j (length rows)
                        then list_eqb stmt_eqb log (firstn (S j) all) && (res =? 1)
                        else list_eqb stmt_eqb log all && (res =? 0)
            | None => list_eqb stmt_eqb log all && (res =? 0)
            end
        end in
      if negb spec_ok then 2
      else match mst with
           | SPanic => if res =? 2 then 0 else 3
           | _ => if list_eqb stmt_eqb log mlog && (res =? status_code mst) then 0 else 1
           end
  | SqlScan vals prec co ft pt data errAt panicked =>
      let '(col, merr, mpanic) := scan_all (tab_fixed ft) (tab_parse pt) (new_column prec co) vals 0 in
      (* oracle: a homogeneous column without coercion and precision is reproduced; the scanner
         never panics; precision keeps NaN / infinities / integers >= 2^53 *)
      let spec_bad :=
        panicked ||
        (match co, (prec <=? 0)%Z, spec_column vals with
         | None, true, Some d =>
             negb (match data with Some d' => coldata_eqb float_cell_eqb d d' | None => false end
                   && opt_nat_eqb errAt None)
         | _, _, _ => false
         end) ||
        (match co, (0 <? prec)%Z, vals, data with
         | None, true, [DFloat f], Some (CFloat [r]) => fixed_known f && negb (fixed_oracle_ok f r)
         | _, _, _, _ => false
         end) in
      if spec_bad then 2
      else if Bool.eqb mpanic panicked && opt_nat_eqb merr errAt
              && option_eqb (coldata_eqb N.eqb) (col_data col) data then 0
      else if mpanic && negb panicked then 3 else 1
  | SqlRead conf rs flt ft pt obs =>
      let m := robs_of (read_sql (tab_fixed ft) (tab_parse pt) conf rs flt) in
      let faulty := sf_prepare flt || sf_query flt ||
                    match sf_row flt with Some k => Nat.leb k (length (rs_rows rs)) | None => false end in
      (* oracle, for EVERY configuration (coercion map, Precision): ReadSQL never panics; every driver
         fault surfaces; without a fault, where the specification defines the frame (spec_read_gen =
         Some d: C19_read_coerced) exactly that frame is returned, and where it says the read must fail
         (a coercion error on a non-NULL value, a NULL after the first value of an int / bool column:
         C19_read_must_fail) no frame is returned.  Result sets outside both stay open. *)
      let fx := tab_fixed ft in
      let pfn := tab_parse pt in
      let known := tabs_cover ft pt conf (rs_names rs) (rs_rows rs) in
      let spec := spec_read_gen fx pfn conf (rs_names rs) (rs_rows rs) in
      let spec_bad :=
        match obs with
        | RPanic => true
        | RErr => negb faulty && known && match spec with Some _ => true | None => false end
        | RFrame cols =>
            faulty ||
            (known &&
             match spec with
             | Some d => negb (cols_eqb float_cell_eqb d cols)
             | None => spec_read_must_fail fx pfn conf (rs_names rs) (rs_rows rs)
             end)
        end in
      if spec_bad then 2
      else if robs_eqb N.eqb m obs then 0
      else match m, obs with RPanic, RFrame _ | RPanic, RErr => 3 | _, _ => 1 end
  | SqlRound f conf obs =>
      let names := map fst (fcols f) in
      let '(log, st) := to_sql f conf (fun _ => true) in
      let m := match st with
               | SOk => robs_of (read_sql (fun x _ => x) (fun _ => None) conf (store_of names log) no_faults)
               | SErr => RErr
               | SPanic => RPanic
               end in
      let spec_bad :=
        match spec_frame f with
        | Some d => negb (robs_eqb float_cell_eqb (RFrame d) obs)
        | None => match obs with RPanic => true | _ => false end
        end in
      if spec_bad then 2
      else if robs_eqb N.eqb m obs then 0
      else match m, obs with RPanic, RFrame _ | RPanic, RErr => 3 | _, _ => 1 end
  end.

(* ------------------------------------------------------------------ engine "iofault" (exhaustive) *)

(* observed result of a read entry point *)
Inductive iobs := IErr | IOk (rows : nat) | IPanic.

Definition iobs_eqb (a b : iobs) : bool :=
  match a, b with
  | IErr, IErr => true
  | IOk x, IOk y => Nat.eqb x y
  | IPanic, IPanic => true
  | _, _ => false
  end.

Definition iobs_of (o : outcome nat) : iobs :=
  match o with Ok n => IOk n | Fail => IErr | Panic => IPanic end.

(* one case = one document / frame with the observations for EVERY fault position *)
Inductive iof_case :=
(* ReadCSV(doc) with the reader failing at offset k, k = 0..len(doc) (obs has len(doc)+2 entries, the
   last one is the reader that never fails); chunk = bytes per Read; wd = error delivered with data *)
| FReadCsv (doc : bytes) (headers : list bytes) (ignore_empty : bool) (chunk : nat) (wd : bool) (obs : list iobs)
(* ReadJSON(doc); baseline = rows of the fault-free result (None: Err set) *)
| FReadJson (doc : bytes) (chunk : nat) (wd : bool) (baseline : option nat) (obs : list iobs)
(* ToCSV on a writer accepting k bytes, k = 0..full+1; errs/gots = error returned / bytes accepted;
   the model is compared at the positions ks (all of them for small outputs) *)
| FWriteCsv (header : option (list wop)) (rows : list (list wop)) (sw : bool) (full : nat)
            (errs : list bool) (gots : list N) (ks : list nat)
| FWriteJson (records : list bytes) (full : nat) (errs : list bool) (gots : list N)
(* ReadSQL with the driver failing at Prepare, at Query, at row k = 0..len(rows) (last entry: never) *)
| FSqlRead (conf : sql_config) (rs : result_set) (oprep oquery : robs) (orows : list robs)
(* ReadSQL with a value Column.Scan rejects planted in column 0 of row k = 0..len(rows)-1 *)
| FSqlScan (conf : sql_config) (rs : result_set) (obs : list robs)
(* ToSQL with Exec number k refused, k = 0..rows (last entry: never) *)
| FSqlWrite (f : frame) (conf : sql_config) (obs : list (list stmt * N)).

Definition big_fuel : nat := 4000.

Fixpoint nseq (start : N) (len : nat) : list N :=
  match len with O => [] | S l => start :: nseq (start + 1) l end.

(* the oracle of the write entry points, at every position k = 0..full+1: an error iff the writer
   refuses a byte of the output (then it accepted at most k bytes); otherwise all of it was accepted *)
Definition write_spec_ok (full : nat) (errs : list bool) (gots : list N) : bool :=
  let fullN := N.of_nat full in
  forallb (fun kx => let '(k, (e, g)) := kx in
                     if k <? fullN then e && (g <=? k) else negb e && (g =? fullN))
          (combine (nseq 0 (full + 2)) (combine errs gots)).

Definition trailing_ws_len (doc : bytes) : nat :=
  (fix go (l : bytes) : nat :=
     match l with
     | c :: r => if (c =? 32) || (c =? 9) || (c =? 10) || (c =? 13) then S (go r) else O
     | [] => O
     end) (rev doc).

(* worst code over the fault positions *)
Definition worst (codes : list N) : N :=
  if existsb (N.eqb 2) codes then 2
  else if existsb (N.eqb 3) codes then 3
  else if existsb (N.eqb 1) codes then 1 else 0.

Definition mk_reader (doc : bytes) (k : nat) (n : nat) (chunk : nat) (wd : bool) : reader :=
  (* k = n + 1 encodes the reader that never fails *)
  if Nat.ltb n k then mkReader doc chunk REOF wd else mkReader (firstn k doc) chunk RFault wd.

Definition plant_other (rows : list (list dval)) (k : nat) : list (list dval) :=
  match nth_error rows k with
  | Some (_ :: rest) => set_nth rows k (DOther :: rest)
  | _ => rows
  end.

Definition check_iofault (c : iof_case) : N :=
  match c with
  | FReadCsv doc headers ign chunk wd obs =>
      let n := length doc in
      if negb (Nat.eqb (length obs) (n + 2)) then 1 else
      worst (map (fun ko =>
                    let '(k, o) := ko in
                    let m := iobs_of (read_csv simple_scanner 44 simple_post big_fuel big_fuel big_fuel
                                               (mkCsvConf headers ign) (mk_reader doc k n chunk wd)) in
                    (* oracle: every failure of the reader, the one right after the last byte included,
                       must surface (ReadCSV has to see EOF to know the input is complete) *)
                    if Nat.leb k n && negb (iobs_eqb o IErr) then 2
                    else match o with IPanic => 2 | _ =>
                      if iobs_eqb m o then 0 else match m with IPanic => 3 | _ => 1 end end)
                 (combine (seq 0 (n + 2)) obs))
  | FReadJson doc chunk wd baseline obs =>
      let n := length doc in
      let needed := (n - trailing_ws_len doc)%nat in
      if negb (Nat.eqb (length obs) (n + 2)) then 1 else
      worst (map (fun ko =>
                    let '(k, o) := ko in
                    let m := iobs_of (read_json simple_js (fun _ => baseline) big_fuel doc (mk_reader doc k n chunk wd)) in
                    (* oracle: a failure before the end of the JSON value must surface; when nothing fails
                       the fault-free result is returned *)
                    if Nat.ltb k needed && negb (iobs_eqb o IErr) then 2
                    else match o with IPanic => 2 | _ =>
                      if iobs_eqb m o then 0 else match m with IPanic => 3 | _ => 1 end end)
                 (combine (seq 0 (n + 2)) obs))
  | FWriteCsv header rows sw full errs gots ks =>
      if negb (Nat.eqb (length errs) (full + 2) && Nat.eqb (length gots) (full + 2)) then 1 else
      if negb (write_spec_ok full errs gots) then 2 else
      worst (map (fun k =>
                    match to_csv header rows (mkFW k [] sw), nth_error errs k, nth_error gots k with
                    | Ok (got, e), Some e', Some g' => if Bool.eqb e e' && (N.of_nat (length got) =? g') then 0 else 1
                    | Panic, _, _ => 3
                    | _, _, _ => 1
                    end) ks)
  | FWriteJson records full errs gots =>
      if negb (Nat.eqb (length errs) (full + 2) && Nat.eqb (length gots) (full + 2)) then 1 else
      if negb (write_spec_ok full errs gots) then 2 else
      worst (map (fun kx => let '(k, (e', g')) := kx in
                            let '(got, e) := to_json records (mkFW k [] false) in
                            if Bool.eqb e e' && (N.of_nat (length got) =? g') then 0 else 1)
                 (combine (seq 0 (full + 2)) (combine errs gots)))
  | FSqlRead conf rs oprep oquery orows =>
      let n := length (rs_rows rs) in
      if negb (Nat.eqb (length orows) (n + 2)) then 1 else
      let run flt := robs_of (read_sql (fun x _ => x) (fun _ => None) conf rs flt) in
      let isErr o := match o with RErr => true | _ => false end in
      (* oracle: every driver failure (k = n: the driver fails instead of reporting the end) surfaces *)
      if negb (isErr oprep && isErr oquery
               && forallb (fun ko => let '(k, o) := ko in if Nat.leb k n then isErr o else negb (match o with RPanic => true | _ => false end))
                          (combine (seq 0 (n + 2)) orows)) then 2
      else if robs_eqb N.eqb (run (mkFaults true false None)) oprep
              && robs_eqb N.eqb (run (mkFaults false true None)) oquery
              && forallb (fun ko => let '(k, o) := ko in
                                    robs_eqb N.eqb (run (mkFaults false false (if Nat.ltb n k then None else Some k))) o)
                         (combine (seq 0 (n + 2)) orows)
      then 0 else 1
  | FSqlScan conf rs obs =>
      let n := length (rs_rows rs) in
      if negb (Nat.eqb (length obs) n) then 1 else
      if negb (forallb (fun o => match o with RErr => true | _ => false end) obs) then 2
      else if forallb (fun ko => let '(k, o) := ko in
                                 robs_eqb N.eqb (robs_of (read_sql (fun x _ => x) (fun _ => None) conf
                                                                   (mkRS (rs_names rs) (plant_other (rs_rows rs) k)) no_faults)) o)
                      (combine (seq 0 n) obs)
      then 0 else 1
  | FSqlWrite f conf obs =>
      let n := length (findex f) in
      if negb (Nat.eqb (length obs) (n + 1)) then 1 else
      let text := spec_insert (map fst (fcols f)) (q_table conf) (q_escape conf) (q_incr conf) in
      let spec_ok :=
        match spec_rows f with
        | None => true
        | Some rows =>
            let all := map (fun r => (text, r)) rows in
            forallb (fun ko => let '(k, (log, res)) := ko in
                               if Nat.ltb k n then list_eqb stmt_eqb log (firstn (S k) all) && (res =? 1)
                               else list_eqb stmt_eqb log all && (res =? 0))
                    (combine (seq 0 (n + 1)) obs)
        end in
      if negb spec_ok then 2
      else if forallb (fun ko => let '(k, (log, res)) := ko in
                                 let '(mlog, mst) := to_sql f conf (fun i => negb (Nat.eqb i k)) in
                                 list_eqb stmt_eqb log mlog && (res =? status_code mst))
                      (combine (seq 0 (n + 1)) obs)
      then 0 else 1
  end.
