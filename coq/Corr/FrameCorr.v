(* Corr/FrameCorr.v — correspondence cases of the frameops engine: one case = one public operation applied to
   a frame whose PHYSICAL state (column data, row index) was dumped through the hook, with the dumped result.
   Every check has two independent parts: the property oracle at table level (code 2) and the exact
   comparison with the L0 model (code 1). *)
From QF Require Model.StringRender.
From QF Require Import Base.Prelude Base.CaseLib Model.Frame Model.Filter Model.FilterSpec Model.Ops Model.TableSpec Model.Eval.
Local Open Scope N_scope.

Definition col_obs_eqb (a b : coldata) : bool :=
  match a, b with
  | ICol x, ICol y => list_eqb Z.eqb x y
  | FCol x, FCol y => list_eqb (fun p q => (p =? q) || (f_isnan p && f_isnan q)) x y
  | BCol x, BCol y => list_eqb Bool.eqb x y
  | SCol x, SCol y => list_eqb opt_bytes_eqb x y
  | ECol x vx sx, ECol y vy sy => list_eqb N.eqb x y && list_eqb bytes_eqb vx vy && Bool.eqb sx sy
  | _, _ => false
  end.

Definition cols_obs_eqb (a b : list (bytes * coldata)) : bool :=
  list_eqb (fun x y => bytes_eqb (fst x) (fst y) && col_obs_eqb (snd x) (snd y)) a b.

(* exact comparison of a model frame with an observed dump *)
Definition frame_obs_eqb (m o : frame) : bool :=
  Bool.eqb (ferr m) (ferr o) &&
  (ferr o || (cols_obs_eqb (cols m) (cols o) && list_eqb Nat.eqb (ix m) (ix o))).

Definition model_code (m : outcome frame) (out : frame) : N :=
  match m with
  | Ok g => if frame_obs_eqb g out then 0 else 1
  | Fail => 1
  | Panic => 3
  end.

(* oracle helper: the observed result must be an error / must denote table t *)
Definition expect_err (out : frame) : N := if ferr out then 0 else 2.
Definition expect_table (t : table) (out : frame) : N :=
  if ferr out then 2
  else match abs out with
       | Ok o => if table_obs_eqb t o && wf_frame out then 0 else 2
       | _ => 2
       end.

(* one aggregation: source column, destination name, and what the statement says its value is *)
Inductive agg_fn :=
| AggCount                                           (* "count": the size of the group *)
| AggTable (tbl : list (list cell * cell))           (* a function of the group's values taken in frame order *)
| AggOpen
(* the forms that also say WHAT was passed as Fn (they let the executable model decide Err and the result type) *)
| AggBuiltin (name : bytes) (tbl : list (list cell * cell))   (* a string other than "count"; tbl = reference values *)
| AggUser (ty : ctype) (tbl : list (list cell * cell))        (* func([]T) T, T given by ty *)
| AggOther.                                                   (* a Go value of any other type *)
Definition agg_spec := (bytes * bytes * agg_fn)%type.   (* (column, as, function) *)

Inductive frame_case :=
| FFilter (input : frame) (mt : matcher_table) (c : clause) (out : frame)
| FSlice (input : frame) (a b : Z) (out : frame)
| FSelect (input : frame) (names : list bytes) (out : frame)
| FDrop (input : frame) (names : list bytes) (out : frame)
| FCopy (input : frame) (dst src : bytes) (out : frame)
| FApply (input : frame) (ut : upper_table) (is : list instr) (out : frame)
| FFilteredApply (input : frame) (mt : matcher_table) (ut : upper_table) (c : clause) (is : list instr) (out : frame)
| FRowNums (input : frame) (name : bytes) (out : frame)
| FEquals (f g : frame) (obs : bool)
| FNew (data : list (bytes * newdata)) (order : list bytes) (enums : list (bytes * list bytes)) (out : frame)
| FEval (input : frame) (ut : upper_table) (cx : ctx) (dst : bytes) (call : earg) (out : frame)
| FAggregate (input : frame) (keycols : list bytes) (groups : list (list nat)) (aggs : list agg_spec) (out : frame)
| FString (ftbl : list (N * bytes)) (input : frame) (out : bytes).

(* oracle code first; when the oracle rejects (2) AND the exact model does not predict the implementation's
   output either, the code is 4: a deviation that is not the modelled (known) behaviour of the current code *)
Definition first_nonzero (a b : N) : N :=
  if a =? 0 then b else if (a =? 2) && negb (b =? 0) then 4 else a.

Definition newdata_cells (d : newdata) (is_enum : bool) : option (ctype * list cell) :=
  let s c := if is_enum then CEnum c else CStr c in
  let ty := if is_enum then TEnum else TString in
  match d with
  | DInts x => Some (TInt, map CInt x)
  | DFloats x => Some (TFloat, map CFloat x)
  | DBools x => Some (TBool, map CBool x)
  | DStrPtrs x => Some (ty, map s x)
  | DStrings x => Some (ty, map (fun b => s (Some b)) x)
  | DConstInt v c => Some (TInt, repeat (CInt v) (Z.to_nat c))
  | DConstFloat v c => Some (TFloat, repeat (CFloat v) (Z.to_nat c))
  | DConstBool v c => Some (TBool, repeat (CBool v) (Z.to_nat c))
  | DConstStr v c => Some (ty, repeat (s v) (Z.to_nat c))
  | DOther => None
  end.

Fixpoint nodup_bytes (l : list bytes) : bool :=
  match l with
  | [] => true
  | x :: t => negb (existsb (bytes_eqb x) t) && nodup_bytes t
  end.

(* the strings a data slice supplies (a constant is resolved even when its count is 0) *)
Definition newdata_strings (d : newdata) : list (option bytes) :=
  match d with
  | DStrPtrs x => x
  | DStrings x => map Some x
  | DConstStr v _ => [v]
  | _ => []
  end.

(* New: whenever a frame is returned it holds exactly the supplied values in the requested order *)
Definition new_oracle (data : list (bytes * newdata)) (order : list bytes) (enums : list (bytes * list bytes)) (out : frame) : N :=
  if ferr out then 0
  else
    let order' := match order with [] => sort_names (map fst data) | _ => order end in
    (* a column order that names a column twice cannot hold exactly the supplied columns; a declared value set
       listing a value twice is not a set: both must be rejected *)
    if negb (nodup_bytes order') then 2
    (* an illegal column name, and an enum declaration that names no column holding string data (unknown column or
       data of another type), are invalid input whatever else was passed: no frame may be returned (C08, C10) *)
    else if negb (forallb (fun kv => check_name (fst kv)) data) then 2
    else if existsb (fun kv => match assocb (fst kv) data with
                               | Some d => negb (is_string_data d)
                               | None => true
                               end) enums then 2
    else if existsb (fun kv => match assocb (fst kv) data with
                               | Some d => is_string_data d && negb (nodup_bytes (snd kv))
                               | None => false
                               end) enums then 2
    (* with declared values, construction fails on any undeclared value (C17) *)
    else if existsb (fun kv => match assocb (fst kv) data, snd kv with
                               | Some d, _ :: _ =>
                                   negb (forallb (fun c => match c with
                                                           | Some b => existsb (bytes_eqb b) (snd kv)
                                                           | None => true
                                                           end) (newdata_strings d))
                               | _, _ => false
                               end) enums then 2
    else
    match abs out with
    | Ok t =>
        if negb (list_eqb bytes_eqb (tnames t) order') then 2
        else
          let cols_ok :=
            forallb (fun k =>
                       match nth_error order' k with
                       | Some n =>
                           match assocb n data with
                           | Some d =>
                               let is_enum := match nth_error (ttypes t) k with Some TEnum => true | _ => false end in
                               match newdata_cells d is_enum with
                               | Some (ty, cells) =>
                                   ctype_eqb ty (nth k (ttypes t) TInt)
                                   && list_eqb cell_obs_eqb cells (map (fun row => nth k row (CInt 0)) (trows t))
                               | None => false
                               end
                           | None => false
                           end
                       | None => false
                       end) (seq 0 (length order')) in
          if cols_ok && wf_frame out then 0 else 2
    | _ => 2
    end.

(* ------------------------------------------------------------------ FilteredApply at table level *)

(* cells of the matching rows spread back over all rows; z on the others *)
Fixpoint spread (sel : list bool) (cells : list cell) (z : cell) : list cell :=
  match sel with
  | [] => []
  | true :: sel' => match cells with c :: cells' => c :: spread sel' cells' z | [] => z :: spread sel' [] z end
  | false :: sel' => z :: spread sel' cells z
  end.

Fixpoint keep_sel {A} (sel : list bool) (l : list A) : list A :=
  match sel, l with
  | true :: sel', x :: l' => x :: keep_sel sel' l'
  | false :: sel', _ :: l' => keep_sel sel' l'
  | _, _ => []
  end.

(* the built-in ToUpper read at table level: every string / enum cell of the source column upper-cased through the
   case's table, null staying null; the result has the source's type (TableSpec.tapply_instr leaves built-ins open) *)
Definition upper_cell (ut : upper_table) (c : cell) : outcome cell :=
  match c with
  | CStr (Some b) => do u <- upper_of ut b; Ok (CStr (Some u))
  | CEnum (Some b) => do u <- upper_of ut b; Ok (CEnum (Some u))
  | other => Ok other
  end.

Definition tapply_instr_ut (ut : upper_table) (t : table) (i : instr) : option (option table) :=
  match tapply_instr t i with
  | Some None =>
      match ifn i with
      | FBuiltin name =>
          if bytes_eqb name name_ToUpper && negb (empty_name (isrc1 i)) && empty_name (isrc2 i) then
            match tcolumn t (isrc1 i) with
            | Some (ty, cells) =>
                if ctype_eqb ty TString || ctype_eqb ty TEnum then
                  match omap (upper_cell ut) cells with
                  | Ok out => Some (Some (tset_col t (idst i) ty out))
                  | _ => Some None
                  end
                else Some None
            | None => Some None
            end
          else Some None
      | _ => Some None
      end
  | other => other
  end.

(* one instruction of FilteredApply on the table t, sel marking the rows that match the clause:
   None = invalid (Err), Some None = open *)
Definition tfiltered_instr (ut : upper_table) (t : table) (sel : list bool) (i : instr) : option (option table) :=
  let tm := mkTable (tnames t) (ttypes t) (keep_sel sel (trows t)) in
  match tapply_instr_ut ut tm i with
  | None => None
  | Some None => Some None
  | Some (Some tm') =>
      match ifn i with
      | F0ColName src => if bytes_eqb src (idst i) then Some (Some t) else
          match tcolumn tm' (idst i) with
          | Some (ty, cells) => Some (Some (tset_col t (idst i) ty (spread sel cells (zero_cell ty))))
          | None => Some None
          end
      | FBuiltin _ =>
          (* the built-in's own zero value: the empty string for a string column ("the zero/null value" of the
             statement is read as either; a user function of string result leaves null), null for an enum *)
          match tcolumn tm' (idst i) with
          | Some (ty, cells) =>
              let filler := match ty with TString => CStr (Some []) | _ => zero_cell ty end in
              Some (Some (tset_col t (idst i) ty (spread sel cells filler)))
          | None => Some None
          end
      | _ =>
          match tcolumn tm' (idst i) with
          | Some (ty, cells) => Some (Some (tset_col t (idst i) ty (spread sel cells (zero_cell ty))))
          | None => Some None
          end
      end
  end.

(* ------------------------------------------------------------------ Eval: the value denoted by the tree *)

Definition cell_ctype (c : cell) : ctype :=
  match c with CInt _ => TInt | CFloat _ => TFloat | CBool _ => TBool | CStr _ => TString | CEnum _ => TEnum end.

(* None = invalid (Err expected); Some None = open; Some (Some (type, cells)) = the column the expression denotes *)
Definition dres := option (option (ctype * list cell)).

Definition d_unary (cx : ctx) (op : bytes) (a : dres) : dres :=
  match a with
  | Some (Some (ty, cells)) =>
      match get_func cx (ftype_of ty) false op with
      | Some (F1 tin tout tbl) =>
          if ctype_eqb (ftype_of ty) tin && negb (ctype_eqb tout TEnum) then
            match omap (tbl1 tbl) cells with Ok out => Some (Some (tout, out)) | _ => Some None end
          else None
      | Some _ => Some None
      | None => None
      end
  | other => other
  end.

Definition d_binary (cx : ctx) (op : bytes) (a b : dres) : dres :=
  match a, b with
  | Some (Some (ty1, c1)), Some (Some (ty2, c2)) =>
      match get_func cx (ftype_of ty1) true op with
      | Some (F2 ty tbl) =>
          if ctype_eqb ty1 ty2 && ctype_eqb (ftype_of ty1) ty then
            match omap (fun xy => tbl2 tbl (fst xy) (snd xy)) (combine c1 c2) with
            | Ok out => Some (Some (ty, out)) | _ => Some None end
          else None
      | Some _ => Some None
      | None => None
      end
  | None, _ | _, None => None
  | _, _ => Some None
  end.

Fixpoint denote (cx : ctx) (t : table) (e : expr) : dres :=
  let col n := match tcolumn t n with Some r => Some (Some r) | None => None end in
  let const v := Some (Some (cell_ctype v, map (fun _ => v) (trows t))) in
  match e with
  | XCol n => col n
  | XConst v => const v
  | XUnary op c => d_unary cx op (col c)
  | XColConst op c v constFirst =>
      (* operands in the order written *)
      if constFirst then d_binary cx op (const v) (col c) else d_binary cx op (col c) (const v)
  | XColCol op c1 c2 => d_binary cx op (col c1) (col c2)
  | XExpr1 op e1 => d_unary cx op (denote cx t e1)
  | XExpr2 op l r => d_binary cx op (denote cx t l) (denote cx t r)
  | XError => None
  end.

Definition eval_oracle (f : frame) (cx : ctx) (dst : bytes) (e : expr) (out : frame) : N :=
  if ferr f then expect_err out
  else match abs f with
       | Ok t =>
           match denote cx t e with
           | None => expect_err out
           | Some None => 0
           | Some (Some (ty, cells)) =>
               match e with
               | XCol src => if bytes_eqb src dst then expect_table t out
                             else if check_name dst then expect_table (tset_col t dst ty cells) out else expect_err out
               | _ => if check_name dst then expect_table (tset_col t dst ty cells) out else expect_err out
               end
           end
       | _ => 3
       end.

(* ------------------------------------------------------------------ Aggregate: one row per group *)
From QF Require Import Gen.GenTables Model.Aggregate.

Definition cells_eqb (a b : list cell) : bool := list_eqb cell_obs_eqb a b.

(* the expected cell of one aggregation for one group; None = open *)
Definition agg_cell (f : frame) (a : agg_spec) (g : list nat) : outcome (option cell) :=
  let '(col, _, fn) := a in
  match fn with
  | AggCount => Ok (Some (CInt (Z.of_nat (length g))))
  | AggOpen | AggOther => Ok None
  | AggTable tbl | AggBuiltin _ tbl | AggUser _ tbl =>
      match lookup_col f col with
      | None => Panic
      | Some c =>
          do vals <- omap (cell_at c) g;
          Ok (match find (fun e => cells_eqb (map (fun x => match x with CEnum s => CStr s | y => y end) (fst e))
                                             (map (fun x => match x with CEnum s => CStr s | y => y end) vals)) tbl with
              | Some e => Some (snd e)
              | None => None
              end)
      end
  end.

(* the model's description of an aggregation of the case; None = the case does not say what Fn was *)
Definition agg_to_model (f : frame) (a : agg_spec) : option aggregation :=
  let '(col, asname, fn) := a in
  match fn with
  | AggCount => Some (mkAgg (GName name_count) col asname)
  | AggTable tbl =>
      (* the engine passes a function of the column's own element type *)
      let ty := match lookup_col f col with Some c => col_ftype c | None => TInt end in
      Some (mkAgg (GUser ty tbl) col asname)
  | AggBuiltin name _ => Some (mkAgg (GName name) col asname)
  | AggUser ty tbl => Some (mkAgg (GUser ty tbl) col asname)
  | AggOther => Some (mkAgg GOther col asname)
  | AggOpen => None
  end.

(* the statement's error cases (Model/Aggregate.v: agg_invalid): an error of the frame or an unknown grouping
   column, an unknown column, a result name already taken, a function the column type does not accept;
   None = an aggregation whose Fn the case does not describe comes before any invalid one *)
Definition agg_expect_err (f : frame) (keycols : list bytes) (aggs : list agg_spec) : option bool :=
  if ferr f || negb (forallb (contains f) keycols) then Some true
  else
    let g := mkGrouper (cols f) keycols [] false in
    (fix go (names : list bytes) (l : list agg_spec) : option bool :=
       match l with
       | [] => Some false
       | a :: rest =>
           match agg_to_model f a with
           | None => None
           | Some m => if agg_invalid g names m then Some true else go (names ++ [agg_name m]) rest
           end
       end) keycols aggs.

Definition aggregate_oracle (f : frame) (keycols : list bytes) (groups : list (list nat)) (aggs : list agg_spec) (out : frame) : N :=
  match agg_expect_err f keycols aggs, ferr out with
  | Some true, false => 2      (* an invalid aggregation was accepted *)
  | Some false, true => 2      (* a valid request was rejected *)
  | _, true => 0
  | _, false =>
    match abs out with
    | Ok t =>
        let names := keycols ++ map (fun a => snd (fst a)) aggs in
        if negb (list_eqb bytes_eqb (tnames t) names) then 2
        else if negb (Nat.eqb (length (trows t)) (length groups)) then 2
        else
          let row_ok (gr : list nat * list cell) : bool :=
            let '(g, row) := gr in
            match g with
            | [] => false
            | first :: _ =>
                (* the key values of the group, then one value per aggregation *)
                let keys_ok :=
                  forallb (fun kc : nat * bytes =>
                             match lookup_col f (snd kc), nth_error row (fst kc) with
                             | Some c, Some x => match cell_at c first with Ok y => cell_obs_eqb x y | _ => false end
                             | _, _ => false
                             end) (combine (seq 0 (length keycols)) keycols) in
                let aggs_ok :=
                  forallb (fun ka : nat * agg_spec =>
                             match agg_cell f (snd ka) g, nth_error row (length keycols + fst ka) with
                             | Ok (Some y), Some x => cell_obs_eqb x y
                             | Ok None, Some _ => true
                             | _, _ => false
                             end) (combine (seq 0 (length aggs)) aggs) in
                keys_ok && aggs_ok
            end in
          if forallb row_ok (combine groups (trows t)) && wf_frame out then 0 else 2
    | _ => 2
    end
  end.

(* --- the exact comparison with the executable model (Model/Aggregate.v) --- *)

(* reference values of the float built-ins, keyed by the Go function the name resolves to *)
Definition agg_float_table (aggs : list agg_spec) : float_table :=
  flat_map (fun a : agg_spec =>
              match snd a with
              | AggBuiltin name tbl =>
                  match assocb name t_f_aggregations with
                  | Some gofn => map (fun e => (gofn, fst e, snd e)) tbl
                  | None => []
                  end
              | _ => []
              end) aggs.

(* the longest prefix of aggregations the case describes completely, and whether it is all of them *)
Fixpoint agg_known_prefix (f : frame) (aggs : list agg_spec) : list aggregation * bool :=
  match aggs with
  | [] => ([], true)
  | a :: rest =>
      match agg_to_model f a with
      | Some m => let '(ms, all) := agg_known_prefix f rest in (m :: ms, all)
      | None => ([], false)
      end
  end.

(* GroupBy's frame-level part is run with the observed groups standing for the hash table; the groups it
   determines itself (error, no rows, no columns) must be the observed ones; then Aggregate is run *)
Definition aggregate_model_code (f : frame) (keycols : list bytes) (groups : list (list nat)) (aggs : list agg_spec) (out : frame) : N :=
  match group_by_with (fun _ _ => Ok groups) f keycols with
  | Ok g =>
      if negb (list_eqb (list_eqb Nat.eqb) (gindices g) groups) then 1
      else
        let '(ms, all) := agg_known_prefix f aggs in
        match aggregate (agg_float_table aggs) g ms with
        | Ok m =>
            if all then model_code (Ok m) out
            else if ferr m then (if ferr out then 0 else 1)   (* sticky: an error before the open aggregation *)
            else 0
        | Fail => 1
        | Panic => 3
        end
  | _ => 3
  end.

Definition check_frame_case (c : frame_case) : N :=
  match c with
  | FFilter f mt cl out =>
      let oracle :=
        if negb (wf_frame f) then 3
        else
          match ix f with
          | [] => 0    (* no row to judge validity on: the model comparison below still applies *)
          | _ =>
              match filter_spec mt f cl with
              | VRows rows => if ferr out then 2 else if list_eqb Nat.eqb rows (ix out) then 0 else 2
              | VError => if ferr out then 0 else 2
              | VOpen => 0
              | VFault => 3
              end
          end in
      first_nonzero oracle (model_code (frame_filter mt f cl) out)
  | FSlice f a b out =>
      let oracle :=
        if ferr f then expect_err out
        else if ((0 <=? a) && (a <=? b) && (b <=? Z.of_nat (length (ix f))))%Z then
          match abs f with Ok t => expect_table (tslice t (Z.to_nat a) (Z.to_nat b)) out | _ => 3 end
        else expect_err out in
      first_nonzero oracle (model_code (Ok (slice f a b)) out)
  | FSelect f names out =>
      let oracle :=
        if ferr f then expect_err out
        else match abs f with
             | Ok t => match tselect t names with Some t' => expect_table t' out | None => expect_err out end
             | _ => 3
             end in
      first_nonzero oracle (model_code (Ok (select f names)) out)
  | FDrop f names out =>
      let oracle :=
        if ferr f then expect_err out
        else match abs f with
             | Ok t =>
                 match names with
                 | [] => expect_table t out
                 | _ => match tselect t (filter (fun n => negb (existsb (bytes_eqb n) names)) (tnames t)) with
                        | Some t' => expect_table t' out | None => 3 end
                 end
             | _ => 3
             end in
      first_nonzero oracle (model_code (Ok (drop f names)) out)
  | FCopy f dst src out =>
      let oracle :=
        if ferr f then expect_err out
        else match abs f with
             | Ok t => match tapply_instr t (mkInstr (F0ColName src) dst [] []) with
                       | Some (Some t') => expect_table t' out
                       | Some None => 0
                       | None => expect_err out
                       end
             | _ => 3
             end in
      first_nonzero oracle (model_code (Ok (copy f dst src)) out)
  | FApply f ut is out =>
      let oracle :=
        if ferr f then expect_err out
        else match abs f with
             | Ok t =>
                 match fold_left (fun acc i => match acc with
                                               | Some (Some t') => tapply_instr_ut ut t' i
                                               | other => other
                                               end) is (Some (Some t)) with
                 | Some (Some t') => expect_table t' out
                 | Some None => 0
                 | None => expect_err out
                 end
             | _ => 3
             end in
      first_nonzero oracle (model_code (apply ut f is) out)
  | FFilteredApply f mt ut cl is out =>
      let oracle :=
        if ferr f then expect_err out
        else
          match ix f with
          | _ :: _ =>
              match filter_spec mt f cl, abs f with
              | VRows rows, Ok t =>
                  (* every instruction computes the rows matching the clause as Apply does on those rows alone;
                     the other rows of its destination column get the zero value of the column's type *)
                  let sel := map (fun p => existsb (Nat.eqb p) rows) (ix f) in
                  match fold_left (fun acc i => match acc with
                                                | Some (Some t') => tfiltered_instr ut t' sel i
                                                | other => other
                                                end) is (Some (Some t)) with
                  | Some (Some t') => expect_table t' out
                  | Some None => 0
                  | None => expect_err out
                  end
              | VError, _ => expect_err out
              | _, _ => 0
              end
          | _ => 0
          end in
      first_nonzero oracle (model_code (filtered_apply mt ut f cl is) out)
  | FRowNums f name out =>
      let oracle :=
        if ferr f then expect_err out
        else if negb (check_name name) then expect_err out
        else match abs f with
             | Ok t => expect_table (tset_col t name TInt (map (fun k => CInt (Z.of_nat k)) (seq 0 (length (trows t))))) out
             | _ => 3
             end in
      first_nonzero oracle (model_code (with_row_nums f name) out)
  | FEquals f g obs =>
      let oracle :=
        match abs f, abs g with
        | Ok a, Ok b => if Bool.eqb (tequal a b) obs then 0 else 2
        | _, _ => 3
        end in
      first_nonzero oracle (match equals f g with Ok b => if Bool.eqb b obs then 0 else 1 | _ => 3 end)
  | FNew data order enums out =>
      first_nonzero (new_oracle data order enums out) (model_code (new_frame data order enums) out)
  | FAggregate f keycols groups aggs out =>
      first_nonzero (aggregate_oracle f keycols groups aggs out) (aggregate_model_code f keycols groups aggs out)
  | FEval f ut cx dst call out =>
      let e := new_expr call in
      first_nonzero (eval_oracle f cx dst e out) (model_code (eval ut cx f dst e) out)
  | FString ftbl f out =>
      (* String(): code 2 = the text is not the rendering of the logical table, 1 = the model's text differs *)
      QF.Model.StringRender.check_string ftbl f out
  end.
