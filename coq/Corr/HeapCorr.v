(* Corr/HeapCorr.v — correspondence cases of the sharing engine ("share") and the trivial case type
   of the concurrency engine ("conc", whose verdict comes from the Go race detector).

   A share case is a history: an initial frame and 1-6 operations, each applied to an earlier member
   of the growing family (frames and groupers).  After every operation the Go hook VerifShare /
   VerifGrouperIndices reports, for every new member, the identity (canonically renumbered in order
   of first appearance), length and capacity of its index array, header slice, by-name map and
   column storage arrays.  The check replays the history with the L1 programs of Model/HeapOps.v on
   an abstract store (instrumented run: run_tr) and compares the same facts.
     code 1: the sharing structure predicted by the L1 program differs from the implementation's;
     code 2: the replay violates the L1 frame condition (an earlier member of the model family
             changed) - cannot happen by theorem C01_history, kept as a run-time cross-check;
     code 3: the instrumented run faulted or the model panicked where the implementation did not. *)
From QF Require Import Base.Prelude Base.CaseLib Model.Heap Model.HeapOps.
Local Open Scope N_scope.

(* ---------------------------------------------------------------- case syntax *)
Inductive sleaf := SLeaf (col : bytes) (arg : option bytes) (inverse : bool) (kind : N) (bad : bool)
                         (sat sat_inv : list Z).   (* oracle: physical rows satisfying the comparator / its built-in inverse *)
(* kind: 0 order comparator (inverse needs a second mask) | 1 comparator with a usable built-in inverse
         | 2 case-insensitive like (matcher buffer, no inverse) | 3 custom function (no inverse) *)
Inductive sclause := SCLeaf (l : sleaf) | SCAnd (cs : list sclause) | SCOr (cs : list sclause)
                   | SCNot (c : sclause) | SCNull.
(* kind: 0 function | 1 constant | 2 column name (apply0 only) | 3 unknown function type *)
Inductive sinstr := SI (kind : N) (rty : N) (dst : bytes) (src1 src2 : option bytes).

Inductive sop :=
| SSlice (a b : Z)
| SSort (names : list bytes) (order : list Z)       (* oracle: the physical rows in sorted order *)
| SFilter (c : sclause)
| SCopy (dst src : bytes)
| SSelect (names : list bytes)
| SDrop (names : list bytes)
| SApply (is : list sinstr)
| SRowNums (name : bytes)
| SFApply (c : sclause) (is : list sinstr)
| SEval (dst : bytes) (is : list sinstr) (colname : bytes) (drop : bool)
| SDistinct (names : list bytes) (key : list (Z * Z))       (* key: physical row -> group number (oracle) *)
| SGroupBy (names : list bytes) (key : list (Z * Z))
| SAggregate (aggs : list (bool * bytes * bytes * N))       (* count?, column, as, result type *)
| SQFrames.

Definition slot := (N * nat * nat)%type.      (* canonical array id (0: none), len, cap *)
Inductive mobs :=
| MF (idx hdr : slot) (mp : N) (cols : list (bytes * N * list (N * nat))) (err : bool)
| MG (groups : list (Z * slot)) (hdr : slot) (mp : N) (err : bool).

Record share_case := mkShare {
  sh_cols : list (bytes * N * list nat);     (* initial frame: name, type, lengths of the storage arrays *)
  sh_rows : nat;
  sh_obs0 : mobs;
  sh_steps : list (nat * sop * list mobs)    (* receiver (member number), operation, new members observed *)
}.

(* ---------------------------------------------------------------- translation to the L1 programs *)
Definition zmem (z : Z) (l : list Z) : bool := existsb (Z.eqb z) l.

Definition leaf_of (l : sleaf) : leaf :=
  match l with
  | SLeaf c a inv kind bad sat sat_inv =>
      mkLeaf c a inv (kind =? 1) 0 bad (kind =? 2) (fun _ => if kind =? 2 then 4%nat else 0%nat)
             None (fun r _ _ => zmem r sat) (fun r _ _ => zmem r sat_inv)
  end.

(* And() / Or() without sub-clauses carry an error; anyFilterErr propagates it upwards *)
Fixpoint sc_err (c : sclause) : bool :=
  match c with
  | SCAnd cs => (match cs with [] => true | _ => false end) || existsb sc_err cs
  | SCOr cs => (match cs with [] => true | _ => false end) || existsb sc_err cs
  | SCNot c1 => sc_err c1
  | _ => false
  end.

Fixpoint clause_of (c : sclause) : clause :=
  match c with
  | SCLeaf l => CLeaf (leaf_of l)
  | SCAnd cs => CAnd (sc_err c) (map clause_of cs)
  | SCOr cs => COr (sc_err c) (map clause_of cs)
  | SCNot c1 => CNot (sc_err c1) (clause_of c1)
  | SCNull => CNull
  end.

Fixpoint has_or (c : sclause) : bool :=
  match c with
  | SCOr _ => true
  | SCAnd cs => existsb has_or cs
  | SCNot c1 => has_or c1
  | _ => false
  end.

Definition instr_of (i : sinstr) : instr :=
  match i with
  | SI kind rty dst s1 s2 =>
      mkInstr (if kind =? 0 then FnCall 1 rty
               else if kind =? 1 then FnConst rty
               else if kind =? 2 then FnColName (match s1 with Some s => s | None => [] end)
               else FnBad)
              dst (if kind =? 2 then None else s1) s2 true
  end.

Definition key_of (key : list (Z * Z)) (r : Z) : Z :=
  match find (fun kv => Z.eqb (fst kv) r) key with Some kv => snd kv | None => (-1)%Z end.
Definition gp_of (key : list (Z * Z)) : gparams :=
  mkGP (fun r _ => key_of key r) (fun i j _ _ => Z.eqb (key_of key i) (key_of key j)).

Definition agg_of (a : bool * bytes * bytes * N) : agg :=
  (* rty = 9: the column rejects the aggregation function (wrong function type for the column type) *)
  let '(cnt, c, as_, rty) := a in mkAgg cnt (if rty =? 9 then None else Some 2) rty c as_.


Fixpoint zpos (z : Z) (l : list Z) : nat :=
  match l with [] => 0%nat | x :: r => if Z.eqb x z then 0%nat else S (zpos z r) end.
Definition order_less (order : list Z) : sort_less := fun di dj _ _ => (zpos di order <? zpos dj order)%nat.

Fixpoint insert_frame (g : Z * qframe) (l : list (Z * qframe)) : list (Z * qframe) :=
  match l with
  | [] => [g]
  | x :: r => if (fst g <? fst x)%Z then g :: l else x :: insert_frame g r
  end.

(* the L1 program of one step; result: the new members *)
Definition step_prog (recv : member) (op : sop) : prog (outcome (list member)) :=
  let one (p : prog (outcome qframe)) := let? q := p in Ret (Ok [MemF q]) in
  match recv, op with
  | MemF q, SSlice a b => Ret (do q' <- op_slice a b q; Ok [MemF q'])
  | MemF q, SSort names order => one (op_sort names (order_less order) insertion_script q)
  | MemF q, SFilter c => one (op_filter (clause_of c) q)
  | MemF q, SCopy d s => one (op_copy true d s q)
  | MemF q, SSelect ns => one (op_select ns q)
  | MemF q, SDrop ns => one (op_drop ns q)
  | MemF q, SApply is => one (op_apply (map instr_of is) q)
  | MemF q, SRowNums n => one (op_with_row_nums true n q)
  | MemF q, SFApply c is => one (op_filtered_apply (clause_of c) (map instr_of is) q)
  | MemF q, SEval dst is cn drop => one (op_eval (map (fun i => EApply (instr_of i)) is) true dst cn drop q)
  | MemF q, SDistinct ns key => one (op_distinct (gp_of key) ns q)
  | MemF q, SGroupBy ns key => let? g := op_group_by (gp_of key) ns q in Ret (Ok [MemG g])
  | MemG g, SAggregate aggs => one (op_aggregate (map agg_of aggs) g)
  | MemG g, SQFrames =>                       (* the frames are numbered by their first row *)
      let* r := op_qframes g in
      match r with
      | Ok fs =>
          let? keyed := for_eachO fs (fun f acc => let? x := get_z (q_idx f) 0 in Ret (Ok (acc ++ [(x, f)]))) [] in
          Ret (Ok (map (fun kf => MemF (snd kf)) (fold_right insert_frame [] keyed)))
      | Fail => Ret (Ok [])
      | Panic => Ret Panic
      end
  | _, _ => Ret Panic
  end.

Definition corr_env : fnid -> list val -> val := fun _ _ => VZ 1.

(* ---------------------------------------------------------------- observing the model family *)
Definition cmap := list (N * loc).          (* kind, location; canonical id = position + 1 *)

Fixpoint cm_find (k : N) (l : loc) (cm : cmap) (i : N) : option N :=
  match cm with
  | [] => None
  | (k', l') :: r => if ((k =? k') && loc_eqb l l')%bool then Some i else cm_find k l r (i + 1)
  end.

Definition canon (k : N) (l : loc) (cm : cmap) : N * cmap :=
  match cm_find k l cm 1 with
  | Some i => (i, cm)
  | None => (N.of_nat (length cm) + 1, cm ++ [(k, l)])
  end.

Definition slot_of (k : N) (s : slice) (cm : cmap) : slot * cmap :=
  if (s_cap s =? 0)%nat then ((0, s_len s, 0%nat), cm)
  else let '(i, cm') := canon k (s_base s) cm in ((i, s_len s, s_cap s), cm').

Fixpoint parts_of (ps : list slice) (cm : cmap) : list (N * nat) * cmap :=
  match ps with
  | [] => ([], cm)
  | p :: r =>
      let '(sl, cm1) := slot_of 3 p cm in
      let '(rest, cm2) := parts_of r cm1 in
      ((fst (fst sl), s_len p) :: rest, cm2)
  end.

Fixpoint cols_of (cs : list col) (cm : cmap) : list (bytes * N * list (N * nat)) * cmap :=
  match cs with
  | [] => ([], cm)
  | c :: r =>
      (* string columns: the byte blob is allocated together with the pointer array in every code
         path and its length depends on the data: only the pointer array is compared *)
      let '(ps, cm1) := parts_of (if c_ty c =? 3 then firstn 1 (c_parts c) else c_parts c) cm in
      let '(rest, cm2) := cols_of r cm1 in
      ((c_name c, c_ty c, ps) :: rest, cm2)
  end.

Definition map_id (m : option loc) (cm : cmap) : N * cmap :=
  match m with None => (0, cm) | Some l => canon 2 l cm end.

Definition obs_frame (st : store) (q : qframe) (cm : cmap) : mobs * cmap :=
  let '(i, cm1) := slot_of 0 (q_idx q) cm in
  let '(h, cm2) := slot_of 1 (q_cols q) cm1 in
  let '(m, cm3) := map_id (q_map q) cm2 in
  let cs := map as_col (slice_seg (q_cols q) (read_loc st (s_base (q_cols q)))) in
  let '(cols, cm4) := cols_of (if (s_len (q_cols q) =? 0)%nat then [] else cs) cm3 in
  (MF i h m cols (q_err q), cm4).

Fixpoint insert_group (g : Z * slice) (l : list (Z * slice)) : list (Z * slice) :=
  match l with
  | [] => [g]
  | x :: r => if (fst g <? fst x)%Z then g :: l else x :: insert_group g r
  end.

Fixpoint group_slots (gs : list (Z * slice)) (cm : cmap) : list (Z * slot) * cmap :=
  match gs with
  | [] => ([], cm)
  | (f, s) :: r =>
      let '(sl, cm1) := slot_of 0 s cm in
      let '(rest, cm2) := group_slots r cm1 in
      ((f, sl) :: rest, cm2)
  end.

Definition obs_grouper (st : store) (g : grouper) (cm : cmap) : mobs * cmap :=
  let gs := if (s_len (g_indices g) =? 0)%nat then []
            else map as_slice (slice_seg (g_indices g) (read_loc st (s_base (g_indices g)))) in
  let firsts := map (fun s => (as_z (hd VNil (slice_seg s (read_loc st (s_base s)))), s)) gs in
  let sorted := fold_right insert_group [] firsts in
  let '(sl, cm1) := group_slots sorted cm in
  let '(h, cm2) := slot_of 1 (g_cols g) cm1 in
  let '(m, cm3) := map_id (g_map g) cm2 in
  (MG sl h m (g_err g), cm3).

Definition obs_member (st : store) (m : member) (cm : cmap) : mobs * cmap :=
  match m with MemF q => obs_frame st q cm | MemG g => obs_grouper st g cm end.

(* ---------------------------------------------------------------- comparison *)
(* capacities are compared except for arrays that went through append's growth path, where Go rounds
   up to an allocator size class: index results of Or clauses and groups of more than 2 rows *)
Definition slot_eqb (inexact : list N) (a b : slot) : bool :=
  let '(ia, la, ca) := a in
  let '(ib, lb, cb) := b in
  ((ia =? ib) && (la =? lb)%nat && (existsb (N.eqb ia) inexact || (ca =? cb)%nat))%bool.

Definition part_eqb (a b : N * nat) : bool := ((fst a =? fst b) && (snd a =? snd b)%nat)%bool.
Definition colobs_eqb (a b : bytes * N * list (N * nat)) : bool :=
  (bytes_eqb (fst (fst a)) (fst (fst b)) && (snd (fst a) =? snd (fst b)) && list_eqb part_eqb (snd a) (snd b))%bool.
Definition gslot_eqb (inexact : list N) (a b : Z * slot) : bool :=
  (Z.eqb (fst a) (fst b) && slot_eqb inexact (snd a) (snd b))%bool.

Definition mobs_eqb (inexact : list N) (a b : mobs) : bool :=
  match a, b with
  | MF i1 h1 m1 c1 e1, MF i2 h2 m2 c2 e2 =>
      (slot_eqb inexact i1 i2 && slot_eqb inexact h1 h2 && (m1 =? m2) && list_eqb colobs_eqb c1 c2 && Bool.eqb e1 e2)%bool
  | MG g1 h1 m1 e1, MG g2 h2 m2 e2 =>
      (list_eqb (gslot_eqb inexact) g1 g2 && slot_eqb inexact h1 h2 && (m1 =? m2) && Bool.eqb e1 e2)%bool
  | _, _ => false
  end.

Definition new_inexact (op : sop) (o : mobs) : list N :=
  match op, o with
  | SFilter c, MF (i, _, _) _ _ _ _ => if has_or c then [i] else []
  | SGroupBy _ _, MG gs _ _ _ => map (fun g => fst (fst (snd g))) (filter (fun g => (2 <? snd (fst (snd g)))%nat) gs)
  | _, _ => []
  end.

(* ---------------------------------------------------------------- the initial store *)
Definition init_parts (i : nat) (lens : list nat) : list slice :=
  map (fun jl => mkSlice (0%nat, (3 + 2 * i + fst jl)%nat) 0 (snd jl) (snd jl)) (combine (seq 0 (length lens)) lens).

Definition init_cols (cs : list (bytes * N * list nat)) : list col :=
  map (fun ic => let '(i, (nm, ty, lens)) := ic in mkCol nm i ty (init_parts i lens))
      (combine (seq 0 (length cs)) cs).

Definition init_store (cs : list (bytes * N * list nat)) (rows : nat) : store :=
  let cols := init_cols cs in
  [((0%nat, 0%nat), map VCol cols);
   ((0%nat, 1%nat), [VMap (map (fun c => (c_name c, c)) cols)]);
   ((0%nat, 2%nat), map (fun i => VZ (Z.of_nat i)) (seq 0 rows))]
  ++ flat_map (fun c => map (fun p => (s_base p, repeat (VZ 0) (s_len p))) (c_parts c)) cols.

Definition init_frame (cs : list (bytes * N * list nat)) (rows : nat) : qframe :=
  mkQF (mkSlice (0%nat, 0%nat) 0 (length cs) (length cs)) (Some (0%nat, 1%nat))
       (mkSlice (0%nat, 2%nat) 0 rows rows) false.

(* ---------------------------------------------------------------- the replay *)
Fixpoint obs_members (st : store) (ms : list member) (cm : cmap) : list mobs * cmap :=
  match ms with
  | [] => ([], cm)
  | m :: r => let '(o, cm1) := obs_member st m cm in
              let '(os, cm2) := obs_members st r cm1 in (o :: os, cm2)
  end.

(* the frame condition, checked at run time on the model: every location that existed before the step
   has the same content after it *)
Definition frame_kept (before after : store) : bool :=
  forallb (fun la => match lookup after (fst la) with
                     | Some a => Nat.eqb (length a) (length (snd la))
                     | None => false
                     end) before.

Fixpoint replay (steps : list (nat * sop * list mobs)) (t : nat) (st : store) (fam : list member)
         (cm : cmap) (inexact : list N) : N :=
  match steps with
  | [] => 0
  | (r, op, obs) :: rest =>
      match nth_error fam r with
      | None => 3
      | Some recv =>
          match run_tr corr_env t (step_prog recv op) 0 st with
          | None => 3                                   (* the L1 program is not solo-safe here *)
          | Some (Panic, _, _, _) => 3
          | Some (Fail, _, _, _) => 3
          | Some (Ok news, _, st', _) =>
              if negb (frame_kept st st') then 2 else
              let '(mine, cm') := obs_members st' news cm in
              let inexact' := flat_map (new_inexact op) mine ++ inexact in
              if list_eqb (mobs_eqb inexact') mine obs
              then replay rest (S t) st' (fam ++ news) cm' inexact'
              else 1
          end
      end
  end.

Definition check_share (c : share_case) : N :=
  let st := init_store (sh_cols c) (sh_rows c) in
  let q0 := init_frame (sh_cols c) (sh_rows c) in
  let '(o0, cm0) := obs_frame st q0 [] in
  if negb (mobs_eqb [] o0 (sh_obs0 c)) then 1
  else replay (sh_steps c) 1 st [MemF q0] cm0 [].

(* ---------------------------------------------------------------- engine "conc" *)
(* The verdict of the concurrency engine comes from the Go race detector and from comparing digests
   in Go; its shard only records that the run took place. *)
Definition check_conc (c : N * bool) : N := if snd c then 0 else 3.   (* (multiset number, it ran) *)
