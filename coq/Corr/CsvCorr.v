(* Corr/CsvCorr.v — correspondence cases of engine "csv" (scan / readcsv / roundtrip families). *)
From QF Require Import Base.Prelude Base.CaseLib Model.FastCsv Model.CsvSpec Model.CsvWrite Model.CsvRead.
Local Open Scope N_scope.

Definition rows_eqb (a b : list (list bytes)) : bool := list_eqb (list_eqb bytes_eqb) a b.

Definition trace_eqb (a b : list (nat * nat * nat)) : bool :=
  list_eqb (fun x y => Nat.eqb (fst (fst x)) (fst (fst y)) && Nat.eqb (snd (fst x)) (snd (fst y))
                       && Nat.eqb (snd x) (snd y)) a b.

Definition term_of (n : N) : rterm :=
  match n with 0 => TEofSep | 1 => TEofWith | 2 => TFailSep | _ => TFailWith end.

Definition term_is_eof (n : N) : bool := n <? 2.

(* one run of the real scanner: initial capacity, chunking, end of stream; what it returned *)
Record scan_run := mkRun {
  sr_cap : nat; sr_chunks : list bytes; sr_term : N;
  sr_rows : list (list bytes); sr_failed : bool; sr_trace : list (nat * nat * nat)
}.

(* codes of one run; [doc] the document all runs must deliver; [oracle]: rows and styles it was rendered from *)
Definition check_run (delim : N) (doc : bytes) (oracle : option (list (list bytes) * styles)) (r : scan_run) : N :=
  if negb (bytes_eqb (concat (sr_chunks r)) doc) then 3   (* malformed case: not a chunking of doc *)
  else
  let oracle_bad :=
    match oracle with
    | Some (rows, st) =>
        term_is_eof (sr_term r) && negb (rows_eqb (sr_rows r) rows && negb (sr_failed r))
    | None => false
    end in
  if oracle_bad then 2
  else
    match scan_trace (sr_cap r) delim (sr_chunks r) (term_of (sr_term r)) with
    | Ok (rows, failed, trace) =>
        if rows_eqb rows (sr_rows r) && Bool.eqb failed (sr_failed r) && trace_eqb trace (sr_trace r)
        then
          (* the buffer-free machine must agree as well whenever the stream ends with EOF *)
          if term_is_eof (sr_term r) && negb (rows_eqb (stream_scan delim doc) (sr_rows r)) then 1 else 0
        else 1
    | _ => 3
    end.

Definition worst (codes : list N) : N :=
  if existsb (N.eqb 2) codes then 2
  else if existsb (N.eqb 1) codes then 1
  else if existsb (N.eqb 3) codes then 3 else 0.

(* ------------------------------------------------------------------ typed frames *)

Definition opt_bytes_eq (a b : option bytes) : bool := opt_bytes_eqb a b.

Definition column_eqb (a b : column) : bool :=
  match a, b with
  | ColInt x, ColInt y => list_eqb Z.eqb x y
  | ColFloat x, ColFloat y => list_eqb N.eqb (map canon_float x) (map canon_float y)
  | ColBool x, ColBool y => list_eqb Bool.eqb x y
  | ColString x, ColString y => list_eqb opt_bytes_eq x y
  | ColEnum _ x, ColEnum _ y => list_eqb opt_bytes_eq x y
  | ColNone, ColNone => true
  | _, _ => false
  end.

Definition frame_eqb (a b : frame) : bool :=
  list_eqb (fun x y => bytes_eqb (fst x) (fst y) && column_eqb (snd x) (snd y)) a b.

(* what the implementation returned: None = Err is set *)
Definition result_agrees (m : outcome frame) (impl : option frame) : N :=
  match m, impl with
  | Ok f, Some g => if frame_eqb f g then 0 else 1
  | Fail, None => 0
  | Panic, _ => 3
  | _, _ => 1
  end.

(* per-case oracle tables for strconv.Atoi / ParseFloat(.,64) / ParseBool *)
Definition ptab : Type := list (bytes * (option Z * option N * option bool)).

Definition tab_int (t : ptab) (s : bytes) : option Z :=
  match assoc s t with Some (a, _, _) => a | None => None end.
Definition tab_float (t : ptab) (s : bytes) : option N :=
  match assoc s t with Some (_, b, _) => b | None => None end.
Definition tab_bool (t : ptab) (s : bytes) : option bool :=
  match assoc s t with Some (_, _, c) => c | None => None end.

Definition tab_covers (t : ptab) (cells : list bytes) : bool :=
  forallb (fun c => match assoc c t with Some _ => true | None => false end) cells.

Definition opt_eqb {A} (eqb : A -> A -> bool) (a b : option A) : bool := option_eqb eqb a b.

(* the concrete decimal parser and ParseBool table must agree with strconv on every sampled string *)
Definition tab_ties (t : ptab) : bool :=
  forallb (fun e => match snd e with
                    | (a, _, c) => opt_eqb Z.eqb (atoi (fst e)) a && opt_eqb Bool.eqb (atob (fst e)) c
                    end) t.

(* strconv.FormatFloat(x, 'f', -1, 64) as a table on bit patterns *)
Definition ftab : Type := list (N * bytes).
Fixpoint tab_fmt (t : ftab) (x : N) : bytes :=
  match t with
  | [] => []
  | (k, v) :: r => if k =? x then v else tab_fmt r x
  end.

(* ------------------------------------------------------------------ C13 oracle *)

Definition c13_premises (empty_null : bool) (f wf : frame) : bool := rt_premises empty_null (frame_len f) wf.

Inductive csv_case :=
| CScan (delim : N) (doc : bytes) (oracle : option (list (list bytes) * styles)) (runs : list scan_run)
(* qframe.ReadCSV(conf) over a scheduled reader; result = None when Err is set *)
| CRead (conf : csv_conf) (chunks : list bytes) (term : N) (oracle : option (list (list bytes) * styles))
        (tab : ptab) (result : option frame)
(* ToCSV of [f] (cells as seen through the views) with [tc]; the bytes written (None: error);
   then ReadCSV of those bytes with the frame's types *)
| CRound (f : frame) (tc : to_conf) (fmt : ftab) (written : option bytes)
         (empty_null : bool) (tab : ptab) (readback : option frame).

Definition check_csv (c : csv_case) : N :=
  match c with
  | CScan delim doc oracle runs =>
      (* an oracle is only accepted for a well-formed rendering of exactly this document *)
      let oracle_ok :=
        match oracle with
        | Some (rows, st) => wf_doc delim rows st && bytes_eqb (render delim rows st) doc
        | None => true
        end in
      if negb oracle_ok then 3
      else worst (map (check_run delim doc oracle) runs)
  | CRead conf chunks term oracle tab result =>
      let doc := concat chunks in
      let delim := cf_delim conf in
      let oracle_ok :=
        match oracle with
        | Some (rows, st) => wf_doc delim rows st && bytes_eqb (render delim rows st) doc
        | None => true
        end in
      if negb oracle_ok then 3
      else if term_is_eof term && negb (tab_covers tab (concat (stream_scan delim doc))) then 3
      else if negb (tab_ties tab) then 1
      else
        let pi := tab_int tab in let pf := tab_float tab in let pb := tab_bool tab in
        (* property oracle: the glue applied to the rows the document was rendered from *)
        let o := match oracle with
                 | Some (rows, _) =>
                     if term_is_eof term then result_agrees (read_rows pi pf pb conf rows false) result else 0
                 | None => 0
                 end in
        if negb (o =? 0) then (if o =? 3 then 3 else 2)
        else result_agrees (read_csv_buf pi pf pb conf chunks (term_of term)) result
  | CRound f tc fmt written empty_null tab readback =>
      let pi := tab_int tab in let pf := tab_float tab in let pb := tab_bool tab in
      if negb (tab_ties tab) then 1
      else
      match to_csv_records (tab_fmt fmt) f tc, written with
      | Ok recs, Some doc =>
          match iter_cols f tc with
          | Ok wf =>
              let conf := read_conf_for empty_null (tc_header tc) wf in
              let premises := c13_premises empty_null f wf in
              (* oracle 1: the bytes denote exactly the records (writer inside the renderer image) *)
              if premises && negb (rows_eqb (stream_scan 44 doc) recs) then 2
              (* oracle 2: reading back gives the frame (columns in written order) *)
              else if premises
                      && negb (match readback with
                               | Some g => frame_eqb g (map (fun nc => (fst nc, norm_col empty_null (snd nc))) wf)
                               | None => false
                               end) then 2
              else if negb (bytes_eqb (concat (map (writer_write 44 false) recs)) doc) then 1
              else if negb (tab_covers tab (concat (stream_scan 44 doc))) then 3
              else result_agrees (read_csv_buf pi pf pb conf (if is_nilb doc then [] else [doc]) TEofSep) readback
          | _ => 3
          end
      | Fail, None => 0
      | Panic, _ => 3
      | _, _ => 1
      end
  end.
