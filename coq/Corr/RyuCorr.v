(* Corr/RyuCorr.v — correspondence cases for Model/Ryu.v (engine "ryu"). *)
From QF Require Import Base.Prelude Base.CaseLib Model.Ryu.
Local Open Scope N_scope.

Inductive ryu_case :=
(* AppendFloat64f on the buffer (contents [pre], stale spare capacity [spare]) returned contents [out] *)
| RApp (bits : N) (pre spare out : bytes)
(* the same for a NaN pattern: the caller never passes one, only the model comparison applies *)
| RNaN (bits : N) (pre spare out : bytes)
(* self-test of the certificate checker: shortest_b bits m k must be [expect] *)
| RCert (bits m : N) (k : Z) (expect : bool).

(* helpers that keep the case terms short: a run of n bytes c, and the stale bytes of the spare capacity
   (the same fixed function of (seed, position) as garByte in harness/cmd/ryu/main.go) *)
Definition rp (c n : N) : bytes := repeat c (N.to_nat n).
Definition gar_byte (seed i : N) : N :=
  let x := (((seed + i) * 2654435761) mod 4294967296) / 16777216 in
  if x mod 4 =? 0 then 48 + (x / 4) mod 10 else x.
Definition gar (seed len : N) : bytes :=
  map (fun i => gar_byte seed (N.of_nat i)) (seq 0 (N.to_nat len)).

(* the growth oracle used when the model is run: a reallocation leaves no spare capacity behind
   (the result does not depend on it, see Proofs/RyuProofs.v) *)
Definition g_none (n : nat) : bytes := [].

Definition run_model (bits : N) (pre spare out : bytes) : N :=
  match AppendFloat64f g_none {| bdata := pre; bspare := spare |} bits with
  | Ok b => if bytes_eqb (bdata b) out then 0 else 1
  | _ => 3
  end.

Definition check_ryu (c : ryu_case) : N :=
  match c with
  | RApp bits pre spare out =>
      (* property oracle: the old contents are kept and the appended text is the canonical shortest form *)
      if negb (bytes_eqb (firstn (length pre) out) pre && oracle_f bits (skipn (length pre) out)) then 2
      else run_model bits pre spare out
  | RNaN bits pre spare out => run_model bits pre spare out
  | RCert bits m k expect => if Bool.eqb (shortest_b bits m k) expect then 0 else 1
  end.
